#!/bin/bash
# Offline setup: third-party monitor libraries go beside /venv's packages into ./.deps
set -e
cd "$(dirname "$0")"
if [ ! -f .deps/.ok ]; then
  rm -rf .deps
  /venv/bin/python -m pip install -q --no-index --find-links /opt/veriftools/wheels --no-deps \
      --target .deps icontract asttokens deal mpmath six 2>&1 | grep -v "^WARNING conda" || true
  touch .deps/.ok
fi
PYTHONPATH="$PWD:$PWD/.deps" /venv/bin/python - <<'PY'
import icontract, mpmath, glotaran, numpy, scipy, numba
print("setup ok: icontract", icontract.__version__, "mpmath", mpmath.__version__,
      "glotaran", glotaran.__version__, "numpy", numpy.__version__, "scipy", scipy.__version__,
      "numba", numba.__version__)
PY
