from e13 import *
import itertools
for link,nn,ws,ww,rel,con,pen in itertools.product([False,True],[False],[False,True],[False,True],[False,True],[False,True],[False,True]):
    if link and ws: continue   # avoid known F4
    model,p,data = build(link,[[1,2,3,4.],[0.,1,2.5,3,5]],ws,ww,rel,con,pen,nn,False)
    scheme = Scheme(model,p,data,maximum_number_function_evaluations=4)
    try:
        r = optimize(scheme, verbose=False, raise_exception=True)
    except Exception as e:
        print(dict(link=link,scale=ws,weight=ww,rel=rel,con=con,pen=pen),"EXC",type(e).__name__,str(e)[:80]); continue
    npts = sum(d.data.size for d in data.values())
    ap = np.concatenate([np.atleast_1d(np.asarray(a,float)) for a in r.additional_penalty]) if r.additional_penalty else np.array([])
    chi = sum(float(((d.weighted_residual if "weighted_residual" in d else d.residual)**2).sum()) for d in r.data.values()) + float((ap**2).sum())
    # clp count: reduced labels per index
    msgs=[]
    if r.number_of_residuals != npts+ap.size: msgs.append(f"nres {r.number_of_residuals} vs {npts}+{ap.size}")
    if not np.isclose(chi, r.chi_square, rtol=1e-9): msgs.append(f"chi {r.chi_square} vs {chi}")
    if not np.isclose(r.cost, r.chi_square/2, rtol=1e-9): msgs.append(f"cost {r.cost} vs {r.chi_square/2}")
    if r.degrees_of_freedom != r.number_of_residuals - r.number_of_free_parameters - r.number_of_clps: msgs.append("dof")
    J=r.jacobian; C=r.covariance_matrix; A=J.T@J
    if not np.allclose(C,C.T): msgs.append("cov asym")
    if not np.allclose(C@A@C, C, rtol=1e-6, atol=1e-12): msgs.append("cov not pinv-ish")
    for j,l in enumerate(r.free_parameter_labels):
        se=r.optimized_parameters.get(l).standard_error
        if not np.isclose(se, r.root_mean_square_error*np.sqrt(C[j,j]), rtol=1e-9): msgs.append(f"se {l}")
    print(dict(link=link,scale=ws,weight=ww,rel=rel,con=con,pen=pen), "nclp", r.number_of_clps, "pen", ap.round(3), "OK" if not msgs else msgs)
