import warnings; warnings.filterwarnings("ignore")
import numpy as np
from t6 import conv_causal, conv_anticausal, DO, PF
rng=np.random.default_rng(1)
eps=2.2e-16
stats={"in":0,"out":0,"viol_in":0,"viol_out":0}; worst_in=0
for _ in range(6000):
    nu = rng.uniform(0,2000); g = 10**rng.uniform(-3,1.5); s = 10**rng.uniform(-3,0.7); c = rng.uniform(-1,1)
    t = c + s*rng.uniform(-4.9,60,40); tau=t-c
    om = nu*0.03*2*np.pi; k=g+1j*om
    M = DO(np.array([om]), np.array([g]), t, c, s, 0.0, 1.0); impl=M[:,0]+1j*M[:,1]
    ref = 2*conv_causal(k,tau,s)
    z = (k*s*s - tau)/(s*np.sqrt(2))
    cond = 1 + np.abs(k*tau) + tau**2/s**2 + np.abs(k)**2*s*s
    tol = 64*eps*cond*np.maximum(np.abs(ref),1e-300) + 1e-300
    bad = np.abs(impl-ref) > tol
    regime = z.real > 3
    stats["in"]+= int((~regime).sum()); stats["out"]+=int(regime.sum())
    stats["viol_in"]+= int((bad&~regime).sum()); stats["viol_out"]+=int((bad&regime).sum())
    if (bad&~regime).any():
        i=np.argmax((np.abs(impl-ref)/tol)*(~regime)); worst_in=max(worst_in, (np.abs(impl-ref)/tol)[i]); wc=(nu,g,s,tau[i],impl[i],ref[i],z[i])
print(stats, "worst slack in stable regime", worst_in, wc if worst_in else "")
