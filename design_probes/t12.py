# C05: dispersed / shifted IRF: matrix[i] == plain-IRF matrix with (centre_i - shift_i, width_i) computed by an independent formula
from common import *
M = Model.create_class_from_megacomplexes([DecayParallelMegacomplex])
rng=np.random.default_rng(0)
def build(kind, ncent, nwid, order_c, order_w, wn, shift, normalize, scales):
    irf = {"type":kind, "center":[f"c{i}" for i in range(ncent)], "width":[f"w{i}" for i in range(nwid)], "normalize":normalize}
    if scales: irf["scale"]=[f"s{i}" for i in range(max(ncent,nwid))]
    if kind.startswith("spectral"):
        irf["dispersion_center"]="dc"; irf["center_dispersion_coefficients"]=[f"cd{i}" for i in range(order_c)]
        irf["width_dispersion_coefficients"]=[f"wd{i}" for i in range(order_w)]; irf["model_dispersion_with_wavenumber"]=wn
    if shift: irf["shift"]=[f"sh{i}" for i in range(5)]
    return irf
def plain(centres, widths, scales, normalize):
    irf={"type":"multi-gaussian","center":[f"pc{i}" for i in range(len(centres))],"width":[f"pw{i}" for i in range(len(widths))],"normalize":normalize}
    if scales is not None: irf["scale"]=[f"ps{i}" for i in range(len(scales))]
    return irf
bad=0; n=0; disc=0
for trial in range(300):
    kind = rng.choice(["multi-gaussian","spectral-multi-gaussian"])
    ncent,nwid = [(1,1),(1,2),(2,1),(2,2),(3,3)][rng.integers(5)]
    oc,ow = (int(rng.integers(0,4)), int(rng.integers(0,4))) if kind.startswith("spectral") else (0,0)
    wn=bool(rng.integers(2)); shift=bool(rng.integers(2)) ; normalize=bool(rng.integers(2)); scales=bool(rng.integers(2))
    if kind=="multi-gaussian" and not shift: shift=True
    irf = build(kind,ncent,nwid,oc,ow,wn,shift,normalize,scales)
    g = np.sort(rng.uniform(400,700,5));  g = g[::-1].copy() if rng.integers(2) else g
    t = np.sort(rng.uniform(-2,20,40))
    vals = {**{f"c{i}":rng.uniform(-0.5,0.5) for i in range(3)}, **{f"w{i}":rng.uniform(0.05,0.5) for i in range(3)}, **{f"s{i}":rng.uniform(0.5,2) for i in range(3)},
            "dc":550.0, **{f"cd{i}":rng.uniform(-0.05,0.05) for i in range(3)}, **{f"wd{i}":rng.uniform(-0.01,0.01) for i in range(3)}, **{f"sh{i}":rng.uniform(-0.3,0.3) for i in range(5)}, "r1":rng.uniform(0.05,5), "r2":rng.uniform(0.05,5)}
    spec={"megacomplex":{"m":{"type":"decay-parallel","compartments":["a","b"],"rates":["r1","r2"]}},"irf":{"i":irf},"dataset":{"d":{"megacomplex":["m"],"irf":"i"}}}
    model=M(**spec); p=Parameters.from_list([[k,float(v)] for k,v in vals.items()])
    dm=fill_item(model.dataset["d"],model,p)
    labels,mat=dm.megacomplex[0].calculate_matrix(dm,g,t)
    assert mat.ndim==3
    # independent per-index parameters
    nG=max(ncent,nwid)
    for i,lam in enumerate(g):
        c=np.array([vals[f"c{j}"] for j in range(ncent)]); w=np.array([vals[f"w{j}"] for j in range(nwid)])
        if ncent==1 and nwid>1: c=np.repeat(c,nwid)
        if nwid==1 and ncent>1: w=np.repeat(w,ncent)
        if kind.startswith("spectral"):
            d = (1e3/lam-1e3/vals["dc"]) if wn else (lam-vals["dc"])/100
            c = c + sum(vals[f"cd{j}"]*d**(j+1) for j in range(oc)); w = w + sum(vals[f"wd{j}"]*d**(j+1) for j in range(ow))
        if shift: c = c - vals[f"sh{i}"]
        sc = np.array([vals[f"s{j}"] for j in range(nG)]) if scales else None
        pirf=plain(c,w,sc,normalize)
        pvals={**vals, **{f"pc{j}":float(c[j]) for j in range(len(c))}, **{f"pw{j}":float(w[j]) for j in range(len(w))}, **({f"ps{j}":float(sc[j]) for j in range(nG)} if scales else {})}
        m2=M(**{"megacomplex":spec["megacomplex"],"irf":{"i":pirf},"dataset":{"d":{"megacomplex":["m"],"irf":"i"}}})
        p2=Parameters.from_list([[k,float(v)] for k,v in pvals.items()])
        dm2=fill_item(m2.dataset["d"],m2,p2)
        _,mat2=dm2.megacomplex[0].calculate_matrix(dm2,g,t)
        assert mat2.ndim==2
        err=np.abs(mat[i]-mat2).max(); n+=1
        if err>1e-12: bad+=1; print("MISMATCH", dict(kind=kind,ncent=ncent,nwid=nwid,oc=oc,ow=ow,wn=wn,shift=shift,norm=normalize,scales=scales), "index",i,"err",err)
        if i>0 and np.abs(mat[i]-mat[i-1]).max()>1e-6: disc+=1
    if bad>5: break
print("index checks",n,"mismatches",bad,"discriminating (differs from neighbour)",disc)
