import warnings; warnings.filterwarnings("ignore")
import numpy as np, numba as nb, inspect, pkgutil, importlib
import glotaran
from numba.core.registry import CPUDispatcher
# discover dispatchers
found = {}
for m in pkgutil.walk_packages(glotaran.__path__, "glotaran."):
    if ".test" in m.name or "deprecation" in m.name or m.name.endswith("conftest"): continue
    try: mod = importlib.import_module(m.name)
    except Exception as e: continue
    for k,v in vars(mod).items():
        if isinstance(v, CPUDispatcher) and v.py_func.__module__ == mod.__name__:
            found[f"{mod.__name__}.{k}"] = v
for k,v in found.items():
    src = inspect.getsource(v.py_func)
    print(k, "parallel=", v.targetoptions.get("parallel"), "uses prange:", "prange" in src)

# tracing
LOG = []           # (iter_stack_tuple, 'r'/'w', flat_index)
STACK = []
class Traced(np.ndarray):
    def __new__(cls, arr, base_offsets=None):
        obj = np.asarray(arr).view(cls)
        obj._ids = np.arange(arr.size).reshape(arr.shape) if base_offsets is None else base_offsets
        return obj
    def __array_finalize__(self, obj):
        self._ids = getattr(obj, "_ids", None)
    def __getitem__(self, idx):
        ids = self._ids[idx]
        out = np.asarray(self).__getitem__(idx)
        if isinstance(out, np.ndarray) and out.ndim>0:
            return Traced(out, ids)     # view: defer logging until element access
        LOG.append((tuple(STACK), 'r', int(ids)))
        return out
    def __setitem__(self, idx, val):
        ids = np.atleast_1d(self._ids[idx]).ravel()
        for i in ids: LOG.append((tuple(STACK), 'w', int(i)))
        np.asarray(self).__setitem__(idx, val)
def traced_prange(*a):
    depth = len(STACK)
    for i in range(*a):
        STACK.append(i)
        try: yield i
        finally: STACK.pop()
import glotaran.builtin.megacomplexes.decay.util as U
import glotaran.builtin.megacomplexes.decay.decay_matrix_gaussian_irf as G
def run(kernel_pyfunc, module, args, substitute=()):
    LOG.clear(); old = nb.prange; nb.prange = traced_prange
    saved = {n: getattr(module, n) for n in substitute}
    for n in substitute: setattr(module, n, getattr(module, n).py_func)
    try: kernel_pyfunc(*args)
    finally:
        nb.prange = old
        for n,v in saved.items(): setattr(module, n, v)
    writers = {}; readers={}
    for st, rw, i in LOG:
        outer = st[0] if st else None
        (writers if rw=='w' else readers).setdefault(i,set()).add(outer)
    multi = {i:w for i,w in writers.items() if len(w)>1}
    cross = {i:(readers[i], writers[i]) for i in readers if i in writers and (readers[i]-writers[i])}
    return len(LOG), len(multi), len(cross)
# kernel 1
m = Traced(np.zeros((5,3))); rates=np.array([.1,.5,2.]); t=np.linspace(0,1,5)
print("no_irf:", run(U.calculate_decay_matrix_no_irf.py_func, U, (m, rates, t)), "matches jit:", end=" ")
m2=np.zeros((5,3)); U.calculate_decay_matrix_no_irf(m2,rates,t); print(np.allclose(np.asarray(m),m2))
# kernel 2 (index dependent), inner dispatcher substituted by py_func; erf/erfcx are ctypes -> fine in python
m = Traced(np.zeros((4,5,3)))
cent = np.array([[0.1],[0.2],[0.3],[0.4]]); wid=np.full((4,1),0.2)
print("gauss idx-dep:", run(G.calculate_decay_matrix_gaussian_irf.py_func, G, (m, rates, t, cent, wid, np.array([1.0]), False, 0.0), substitute=("calculate_decay_matrix_gaussian_irf_on_index",)), "matches jit:", end=" ")
m2=np.zeros((4,5,3)); G.calculate_decay_matrix_gaussian_irf(m2, rates, t, cent, wid, np.array([1.0]), False, 0.0); print(np.allclose(np.asarray(m),m2))
# racy variant: treat the on_index kernel as if parallel over gaussians (n_i) -> multiple writers expected
m = Traced(np.zeros((5,3)))
print("on_index with 2 gaussians (outer prange = n_i):", run(G.calculate_decay_matrix_gaussian_irf_on_index.py_func, G, (m, rates, t, np.array([0.1,0.3]), np.array([0.2,0.2]), np.array([1.0,1.0]), False, 0.0)))
