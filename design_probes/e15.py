import numpy as np, warnings
warnings.filterwarnings("ignore")
from scipy.special import erfcx, erfc, log_ndtr
from glotaran.builtin.megacomplexes.decay.decay_matrix_gaussian_irf import calculate_decay_matrix_gaussian_irf_on_index as K
def ref(k, t, mu, s):
    # log-domain: 0.5*exp(k^2 s^2/2 - k(t-mu)) * erfc((k s^2-(t-mu))/(s sqrt2)) = exp(a) * Phi(z), z = ((t-mu) - k s^2)/s
    z = ((t-mu) - k*s*s)/s
    return np.exp(k*k*s*s/2 - k*(t-mu) + log_ndtr(z))
rng = np.random.default_rng(0)
worst = 0; nbad=0; n=0
for _ in range(20000):
    k = 10**rng.uniform(-4,3); s = 10**rng.uniform(-3,1); mu = rng.uniform(-5,5)
    t = mu + s*np.concatenate([rng.uniform(-100,1000,8), [-1/np.sqrt(2)*np.sqrt(2)+k*s, k*s - np.sqrt(2)]])  # around switch: beta-alpha=-1
    m = np.zeros((t.size,1))
    K(m, np.array([k]), t, np.array([mu]), np.array([s]), np.array([1.0]), False, 0.0)
    r = ref(k,t,mu,s)
    err = np.abs(m[:,0]-r)/np.maximum(np.abs(r),1e-300)
    err = np.where((np.abs(r)<1e-290)&(np.abs(m[:,0])<1e-290),0,err)
    if not np.all(np.isfinite(m)): nbad+=1; continue
    n+=1
    if err.max()>worst: worst=err.max(); wc=(k,s,mu,t[err.argmax()],m[err.argmax(),0],r[err.argmax()])
print("cases",n,"nonfinite",nbad,"worst rel err",worst,wc)
