import warnings, numpy as np
warnings.filterwarnings("ignore")
from glotaran.optimization.data_provider import DataProvider, DataProviderLinked
ax = np.array([0.,1,2,3,4,5])
print("inf slice", DataProvider.get_axis_slice_from_interval((2, np.inf), ax))
print("-inf slice", DataProvider.get_axis_slice_from_interval((-np.inf, 2), ax))
print("rev slice", DataProvider.get_axis_slice_from_interval((4, 1), ax))
print("between", DataProvider.get_axis_slice_from_interval((1.4, 1.6), ax))
print("outside", DataProvider.get_axis_slice_from_interval((10, 20), ax))
# align_index forward
print("forward 4.5 on [1,5,6] tol 1:", DataProviderLinked.align_index(4.5, np.array([1.,5,6]), 1, "forward"))
print("backward 5.5 on [1,5,6] tol 1:", DataProviderLinked.align_index(5.5, np.array([1.,5,6]), 1, "backward"))
print("nearest 5.4 on [1,5,6] tol 1:", DataProviderLinked.align_index(5.4, np.array([1.,5,6]), 1, "nearest"))
