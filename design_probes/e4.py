from common import *
import traceback
M = Model.create_class_from_megacomplexes([DecayParallelMegacomplex])
def run(labels, axes, scale=None, link=True, weights=None, model_weights=None, tol=0.0):
    spec = {
     "megacomplex": {"m": {"type":"decay-parallel","compartments":["s1","s2"],"rates":["r1","r2"]}},
     "dataset_groups": {"default": {"link_clp": link}},
     "dataset": {l: {"megacomplex":["m"]} for l in labels},
    }
    if scale: 
        for l,s in scale.items(): spec["dataset"][l]["scale"]=s
    if model_weights: spec["weights"]=model_weights
    model = M(**spec)
    p = Parameters.from_list([["r1",0.5],["r2",0.1],["sc",2.0,{"vary":False}]])
    t = np.linspace(0,10,30)
    rng = np.random.default_rng(0)
    data = {}
    for l,ax in zip(labels,axes):
        clp = xr.DataArray(rng.uniform(1,2,(len(ax),2)), coords=[("spectral",ax),("clp_label",["s1","s2"])])
        ds = simulate(model, l, p, {"time":t,"spectral":np.asarray(ax,float)}, clp)
        ds["data"] = ds.data + rng.normal(0,0.01,ds.data.shape)
        if weights and l in weights: ds["weight"] = xr.full_like(ds.data, weights[l])
        data[l]=ds
    scheme = Scheme(model, p, data, maximum_number_function_evaluations=1, clp_link_tolerance=tol)
    return optimize(scheme, verbose=False, raise_exception=True)
# 1 label collisions
for labels in (["a","ab","b"], ["ds","ds1"], ["x","y"]):
    try:
        r = run(labels, [[1.,2,3],[3.,4,5],[1.,2,6]][:len(labels)])
        for l in labels:
            d=r.data[l]
            fit = (d.matrix @ d.clp) if d.matrix.ndim==2 else None
            print(labels, l, "decomp err", float(np.abs(d.data-d.fitted_data-d.residual).max()), "fit-vs-matrix*clp", float(np.abs(d.fitted_data - xr.dot(d.matrix,d.clp,dims="clp_label")).max()))
    except Exception as e:
        print(labels, "EXC", type(e).__name__, e)
# 2 scale at single-dataset index
r = run(["x","y"], [[1.,2,3],[2.,3,4]], scale={"y":"sc"})
for l in ["x","y"]:
    d=r.data[l]; s=d.attrs["dataset_scale"]
    err = np.abs(d.fitted_data - s*xr.dot(d.matrix,d.clp,dims="clp_label")).max(dim="time")
    print(l, "scale",s, "per-index err of fitted = scale*matrix*clp:", err.values)
# 3 dataset weight + model weight
try:
    r = run(["x"], [[1.,2,3]], link=False, weights={"x":0.5}, model_weights=[{"datasets":["x"],"value":2.0}])
    print("both weights OK, weight=", np.unique(r.data["x"].weight))
except Exception as e:
    print("both weights EXC", type(e).__name__, e)
# 4 model weight with inf interval
r = run(["x"], [[1.,2,3,4]], link=False, model_weights=[{"datasets":["x"],"value":2.0,"global_interval":(2, float("inf"))}])
print("weight per global index with (2,inf):", r.data["x"].weight.isel(time=0).values)
