import sys, warnings
warnings.filterwarnings("ignore")
import numpy as np, icontract
from glotaran.parameter import Parameters
import glotaran.parameter.parameters as PM
import glotaran.optimization.estimation_provider as EP

class Broken(Exception): pass
count = {"inv":0, "post":0}
# --- invariant on Parameters
def expr_consistent(self):
    count["inv"] += 1
    for p in self.all():
        if p.expression is not None:
            import re
            e = re.sub(r"\$([\w.]+)", lambda m: repr(float(self.get(m.group(1)).value)), p.expression)
            ref = eval(e, {"__builtins__":{}}, {"nan": float("nan")})
            if not (ref == p.value or (ref != ref and p.value != p.value)):
                return False
    return True
try:
    P2 = icontract.invariant(expr_consistent, error=Broken)(Parameters)
    print("invariant returned same class object:", P2 is Parameters)
    p = Parameters.from_list([["a",1.0],["b",{"expr":"$a*2"}]])
    p.set_from_label_and_value_arrays(["a"], np.array([3.0]))
    print("ok forward order; invariant evals:", count["inv"], p.get("b").value)
    try:
        Parameters.from_list([["x",{"expr":"$y*2"}],["y",{"expr":"$z+1"}],["z",3.0]])
        print("reverse chain: NO violation raised")
    except Broken as e:
        print("reverse chain: Broken raised OK")
except Exception as e:
    import traceback; traceback.print_exc()
# --- ensure on EstimationProvider.calculate_residual
def post_resid(self, matrix, data, result):
    count["post"] += 1
    clp, res = result
    return np.allclose(res, data - matrix @ clp, atol=1e-9)
EP.EstimationProvider.calculate_residual = icontract.ensure(post_resid, error=Broken)(EP.EstimationProvider.calculate_residual)
from glotaran.testing.simulated_data.sequential_spectral_decay import MODEL, PARAMETERS, DATASET
from glotaran.project import Scheme
from glotaran.optimization.optimize import optimize
r = optimize(Scheme(MODEL, PARAMETERS, {"dataset_1": DATASET}, maximum_number_function_evaluations=2), verbose=False, raise_exception=True)
print("post evals during optimize:", count["post"], "inv evals:", count["inv"])
