import warnings, numpy as np, xarray as xr
warnings.filterwarnings("ignore")
from glotaran.model import Model
from glotaran.parameter import Parameters
from glotaran.project import Scheme
from glotaran.optimization.optimize import optimize
from glotaran.optimization.optimizer import Optimizer
from glotaran.simulation import simulate
from glotaran.builtin.megacomplexes.decay import DecayMegacomplex, DecayParallelMegacomplex, DecaySequentialMegacomplex
from glotaran.builtin.megacomplexes.damped_oscillation import DampedOscillationMegacomplex
from glotaran.builtin.megacomplexes.coherent_artifact import CoherentArtifactMegacomplex
from glotaran.builtin.megacomplexes.baseline import BaselineMegacomplex
from glotaran.builtin.megacomplexes.spectral import SpectralMegacomplex
from glotaran.builtin.megacomplexes.pfid import PFIDMegacomplex
from glotaran.model.item import fill_item
