from common import *
import tempfile, os, traceback
from glotaran.io import save_parameters, load_parameters, save_model, load_model
# C12
p = Parameters.from_list([["a", {"expr":"$b * 2"}], ["b", {"expr":"$c + 1"}], ["c", 3.0]])
print("C12 after ctor:", {x.label:x.value for x in p.all()})
p.update_parameter_expression()
print("C12 after 2nd update:", {x.label:x.value for x in p.all()})
p.set_from_label_and_value_arrays(["c"], np.array([10.]))
print("C12 after set c=10:", {x.label:x.value for x in p.all()})
# C20
M = Model.create_class_from_megacomplexes([DecayParallelMegacomplex])
model = M(**{"megacomplex": {"m": {"type":"decay-parallel","compartments":["s1"],"rates":["r1"]}},
             "dataset": {"d": {"megacomplex":["m","missing"]}}})
try:
    print("C20 validate:", model.validate())
except Exception as e:
    print("C20 EXC", type(e).__name__, e)
# C16 csv numeric labels
d = tempfile.mkdtemp()
p = Parameters.from_dict({"rates":[["1.10", 0.5],["1.20",0.7]]})
p2 = Parameters.from_list([["1", 0.5],["2",0.7]])
p3 = Parameters.from_list([["1.10", 0.5],["1.20",0.7, {"min":0.1,"non-negative":True,"vary":False}], ["ex", {"expr":"$1.10*2"}]])
for i,pp in enumerate((p,p2,p3)):
    for fmt in ("csv","tsv","xlsx","ods"):
        f = os.path.join(d, f"p{i}.{fmt}")
        try:
            save_parameters(pp, f)
            q = load_parameters(f)
            print("C16", i, fmt, "equal:", q==pp, [x.label for x in q.all()])
        except Exception as e:
            print("C16", i, fmt, "EXC", type(e).__name__, str(e)[:100])
# C17 interval tuple roundtrip
M = Model.create_class_from_megacomplexes([DecayMegacomplex])
spec = {"megacomplex": {"m": {"type":"decay","k_matrix":["k"]}},
 "k_matrix": {"k": {"matrix": {("s2","s1"):"k1", ("s2","s2"):"k2"}}},
 "initial_concentration": {"j": {"compartments":["s1","s2"], "parameters":["j1","j2"]}},
 "clp_constraints":[{"type":"zero","target":"s1","interval":(1,2)},{"type":"only","target":"s2","interval":[(1,2),(3,4)]}],
 "dataset": {"d": {"megacomplex":["m"], "initial_concentration":"j"}}}
model = M(**spec)
f = os.path.join(d,"m.yml"); save_model(model, f)
print(open(f).read())
m2 = load_model(f)
print("C17 as_dict equal:", m2.as_dict()==model.as_dict())
for c in m2.clp_constraints:
    try: print("  applies(1.5):", c.interval, c.applies(1.5))
    except Exception as e: print("  applies EXC", type(e).__name__, e)
