from e13 import *
import tempfile, shutil, os
from pathlib import Path
from glotaran.io import save_result, load_result
model,p,data = build(True,[[1,2,3,4.],[0.,1,2.5,3,5]],False,True,True,True,True,False,False)
r = optimize(Scheme(model,p,data,maximum_number_function_evaluations=3), verbose=False)
d = Path(tempfile.mkdtemp())
os.chdir(d)
paths = save_result(r, "res/result.yml")
print([Path(x).name for x in paths])
print(open(d/"res/result.yml").read()[:1500])
shutil.move(d/"res", d/"moved")
os.chdir("/")
r2 = load_result(d/"moved/result.yml")
print("params equal", r2.optimized_parameters==r.optimized_parameters, r2.initial_parameters==r.initial_parameters)
for l in r.data:
    a,b=r.data[l],r2.data[l]
    diffs=[v for v in a.data_vars if v not in b or not np.array_equal(a[v].values,b[v].values, equal_nan=True)]
    print(l,"vars differing:",diffs, "attrs differing:", [k for k in a.attrs if k not in b.attrs or str(a.attrs[k])!=str(b.attrs[k])])
ha=r.parameter_history.to_dataframe(); hb=r2.parameter_history.to_dataframe()
print("history max abs diff", np.abs(ha.values-hb.values).max(), "exact:", (ha.values==hb.values).all())
for f in ("chi_square","cost","number_of_clps","root_mean_square_error","additional_penalty","jacobian","covariance_matrix","termination_reason","free_parameter_labels"):
    print(f, type(getattr(r,f)).__name__, "->", type(getattr(r2,f)).__name__, getattr(r,f)==getattr(r2,f) if not hasattr(getattr(r,f),'shape') else "array")
print(open(d/"moved/scheme.yml").read())
