import numpy as np, pandas as pd, io
rng = np.random.default_rng(1)
for lo,hi in ((-10,10),(-60,60),(-300,300)):
    vals = np.ldexp(rng.uniform(0.5,1,20000), rng.integers(lo,hi,20000))
    s = pd.DataFrame({"v":vals}).to_csv(index=False)
    back = pd.read_csv(io.StringIO(s))["v"].values
    rel = np.abs(back-vals)/np.abs(vals)
    back2 = pd.read_csv(io.StringIO(s), float_precision="round_trip")["v"].values
    print((lo,hi), "inexact", (rel>0).sum(), "maxrel", rel.max(), "max ulps", (rel/2.2e-16).max(), " round_trip inexact:", (back2!=vals).sum())
