from common import *
import tempfile, os, sys
from pathlib import Path
from glotaran.project import Project
from glotaran.testing.simulated_data.sequential_spectral_decay import DATASET, MODEL, PARAMETERS
from glotaran.io import save_model, save_parameters, save_dataset
d = Path(tempfile.mkdtemp())
proj = Project.open(d/"proj")
proj.import_data(DATASET, dataset_name="dataset_1")
save_model(MODEL, proj.get_models_directory()/"m.yml")
save_parameters(PARAMETERS, proj.get_parameters_directory()/"p.csv")
def opt(name):
    proj.optimize("m","p", result_name=name, maximum_number_function_evaluations=1)
import io, contextlib
for name in ["a","a","a_run_b","a"]:
    with contextlib.redirect_stdout(io.StringIO()):
        try: opt(name); err=None
        except Exception as e: err=f"{type(e).__name__}: {e}"
    print("optimize", name, "->", sorted(p.name for p in (d/"proj"/"results").iterdir()), err)
for q in ["a","a_run_0000","a_run_b"]:
    for fn in (proj.get_latest_result_path,):
        try: print("latest", q, "->", fn(q).relative_to(d))
        except Exception as e: print("latest", q, "EXC", type(e).__name__, e)
    try: print("get_result_path", q, "->", proj.get_result_path(q, latest=True).relative_to(d))
    except Exception as e: print("get_result_path", q, "EXC", type(e).__name__, e)
