import numpy as np, warnings
from glotaran.optimization.nnls import residual_nnls
from glotaran.optimization.variable_projection import residual_variable_projection
rng = np.random.default_rng(0)
t = np.linspace(0,10,200)
A = np.exp(-np.outer(t,[0.1,0.5,2.0]))
x = np.array([1.,2,0.5])
for scale in (1e-16,1e-14,1e-12,1e-8,1,1e8,1e150):
    y = (A@x + 0.01*rng.normal(size=t.size))*scale
    try:
        c,r = residual_nnls(A,y)
        w = A.T@r
        c2,r2 = residual_varpro = residual_variable_projection(A,y)
        print(f"scale {scale:g}: nnls clp/scale {c/scale}, max dual {w.max()/scale:.2e}, |r|/scale {np.linalg.norm(r)/scale:.4f}; varpro |r|/scale {np.linalg.norm(r2)/scale:.4f} orth {np.abs(A.T@r2).max()/scale:.1e}")
    except Exception as e:
        print(scale, "EXC", type(e).__name__, e)
# Fortran vs C order / non-contiguous / integer input
A2 = np.asfortranarray(A); y=A@x
print("F-order varpro", residual_variable_projection(A2,y)[0])
print("y unchanged?", np.allclose(y, A@x), "A unchanged?", np.allclose(A, np.exp(-np.outer(t,[0.1,0.5,2.0]))))
# rank deficient
A3 = np.column_stack([A[:,0],A[:,0],A[:,1]])
print("rank-def varpro", residual_variable_projection(A3,y)[0][:3], np.linalg.norm(residual_variable_projection(A3,y)[1]))
# n > m? 
