import warnings; warnings.filterwarnings("ignore")
import numpy as np, itertools
from glotaran.optimization.estimation_provider import _get_area
from glotaran.optimization.data_provider import DataProvider
axis = np.array([0.,1,2,3.5,5,6])
clps = [np.array([2.0**i]) for i in range(axis.size)]
def decode(v): return {i for i in range(axis.size) if int(round(v))>>i & 1}
def admissible(lo,hi):
    a,b=min(lo,hi),max(lo,hi)
    inside={i for i,x in enumerate(axis) if a<=x<=b}
    nl = 0 if np.isinf(a) and a<0 else (axis.size-1 if np.isinf(a) else int(np.abs(axis-a).argmin()))
    nh = axis.size-1 if np.isinf(b) and b>0 else (0 if np.isinf(b) else int(np.abs(axis-b).argmin()))
    hull=set(range(min(nl,nh), max(nl,nh)+1)) | inside
    return inside,hull
bad=[]
vals=[-np.inf,-1,0,0.4,1,1.5,2.6,3.5,4.9,6,7,np.inf]
for lo,hi in itertools.product(vals,vals):
    if np.isinf(lo) and np.isinf(hi) and lo==hi: continue
    S = decode(_get_area("s",["s"],clps,[(lo,hi)],axis).sum())
    inside,hull = admissible(lo,hi)
    ok = inside<=S<=hull
    if not ok: bad.append(((lo,hi),sorted(S),sorted(inside),sorted(hull)))
print(len(bad),"deviations of _get_area from admissible sets")
for b in bad[:40]: print(b)
# same for get_axis_slice_from_interval (weights)
bad=[]
for lo,hi in itertools.product(vals,vals):
    if np.isinf(lo) and np.isinf(hi) and lo==hi: continue
    sl = DataProvider.get_axis_slice_from_interval((lo,hi),axis); S=set(range(axis.size)[sl])
    inside,hull = admissible(lo,hi)
    if not inside<=S<=hull: bad.append(((lo,hi),sorted(S),sorted(inside),sorted(hull)))
print(len(bad),"deviations of weight slices")
for b in bad[:40]: print(b)
