from common import *
import tempfile, os, struct
from glotaran.io import save_parameters, load_parameters
d = tempfile.mkdtemp()
cases = {
 "numlabels": Parameters.from_list([["1.10", 0.5],["1.20",0.7]]),
 "intlabels_lead0": Parameters.from_list([["01", 0.5],["02",0.7]]),
 "nested_num": Parameters.from_dict({"1":[["10", 0.5],["20",0.7]]}),
 "boolish": Parameters.from_list([["a", 0.5, {"vary":False}],["b",0.7,{"vary":False}]]),
 "infvals": Parameters.from_list([["a", float("inf")],["b",-1e308, {"min":-float("inf"),"max":1e308}], ["c", 5e-324]]),
 "nanval": Parameters.from_list([["a", float("nan")],["b",1.0]]),
 "maxminswap": Parameters.from_list([["a", 1.0, {"min":float("inf")}]]),
 "trueLabel": Parameters.from_list([["true", 1.0],["none",2.0],["NA",3.0],["null",4.0]]),
 "exprs": Parameters.from_list([["a", 1.0],["b", {"expr":"$a*2"}],["c",{"expr":"1e3"}]]),
}
rng = np.random.default_rng(1)
vals = [float(x) for x in np.ldexp(rng.uniform(0.5,1,2000), rng.integers(-300,300,2000))]
cases["precision"] = Parameters.from_list([[f"p{i}", v] for i,v in enumerate(vals)])
for name,pp in cases.items():
    for fmt in ("csv","xlsx","ods"):
        if name=="precision" and fmt!="csv": continue
        f = os.path.join(d, f"{name}.{fmt}")
        try:
            save_parameters(pp, f)
            q = load_parameters(f)
            eq = q==pp
            extra=""
            if name=="precision":
                bad=[(a.value,b.value) for a,b in zip(pp.all(),q.all()) if a.value!=b.value]
                extra=f" n_inexact={len(bad)} maxrel={max([abs(a-b)/abs(a) for a,b in bad] or [0])}"
            print(name, fmt, "equal:", eq, [x.label for x in q.all()][:4], extra)
        except Exception as e:
            print(name, fmt, "EXC", type(e).__name__, str(e)[:120])
