# C15: (a) sys.monitoring LINE failpoints raising inside optimiser/provider code; (b) non-finite matrices
from common import *
import sys, io, contextlib
import glotaran.optimization.optimization_group as OG, glotaran.optimization.estimation_provider as EP, glotaran.optimization.matrix_provider as MP, glotaran.optimization.optimizer as OP
from glotaran.optimization.optimizer import InitialParameterError
from glotaran.optimization.test.models import SimpleKineticMegacomplex  # not used; own model below
M = Model.create_class_from_megacomplexes([DecayParallelMegacomplex])
model=M(**{"megacomplex":{"m":{"type":"decay-parallel","compartments":["a","b"],"rates":["k1","k2"]}},"clp_penalties":[{"type":"equal_area","source":"a","source_intervals":[(0,5)],"target":"b","target_intervals":[(0,5)],"parameter":"pp","weight":0.1}],"dataset":{"d":{"megacomplex":["m"]}}})
p=Parameters.from_list([["k1",0.5],["k2",0.1],["pp",1.0,{"vary":False}]])
rng=np.random.default_rng(0); t=np.linspace(0,20,40); g=np.arange(5.)
clp=xr.DataArray(rng.uniform(0.5,2,(5,2)),coords=[("spectral",g),("clp_label",["a","b"])])
ptrue=Parameters.from_list([["k1",0.6],["k2",0.12],["pp",1.0,{"vary":False}]])
ds=simulate(model,"d",ptrue,{"time":t,"spectral":g},clp,noise=True,noise_std_dev=0.01,noise_seed=1)
mon=sys.monitoring; TOOL=mon.DEBUGGER_ID
class Inject(Exception): pass
targets=[OP.Optimizer.objective_function, OP.Optimizer.calculate_penalty, OG.OptimizationGroup.calculate, MP.MatrixProviderUnlinked.calculate, MP.MatrixProviderUnlinked.calculate_prepared_matrices, MP.MatrixProvider.calculate_dataset_matrices, EP.EstimationProviderUnlinked.estimate, EP.EstimationProviderUnlinked.calculate_estimation, EP.EstimationProvider.calculate_clp_penalties, EP.EstimationProviderUnlinked.get_full_penalty]
codes={f.__code__:f.__qualname__ for f in targets}
# first pass: collect executed lines
seen=set()
def collect(code,line):
    if code in codes: seen.add((code,line))
    return mon.DISABLE
mon.use_tool_id(TOOL,"vf"); mon.register_callback(TOOL,mon.events.LINE,collect)
for c in codes: mon.set_local_events(TOOL,c,mon.events.LINE)
with contextlib.redirect_stdout(io.StringIO()): optimize(Scheme(model,p,{"d":ds},maximum_number_function_evaluations=3),verbose=False)
for c in codes: mon.set_local_events(TOOL,c,0)
print("lines collected",len(seen))
outcomes={}
state={"eval":0,"target":None,"at_eval":None,"fired":False}
def fire(code,line):
    if code is OP.Optimizer.objective_function.__code__ and line==code.co_firstlineno+14: pass
    if (code,line)==state["target"] and state["eval"]==state["at_eval"] and not state["fired"]:
        state["fired"]=True; raise Inject(f"{codes[code]}:{line}")
orig_of=OP.Optimizer.objective_function
def counting(self,x):
    state["eval"]+=1; return orig_of(self,x)
mon.register_callback(TOOL,mon.events.LINE,fire)
n=0; bad=[]
for at_eval in (1,2,4):
    for tgt in sorted(seen,key=lambda cl:(codes[cl[0]],cl[1])):
        if tgt[0] is orig_of.__code__: continue
        state.update(eval=0,target=tgt,at_eval=at_eval,fired=False)
        OP.Optimizer.objective_function=counting
        mon.set_local_events(TOOL,tgt[0],mon.events.LINE)
        before=sys.stdout; snap={q.label:q.value for q in p.all()}
        try:
            with warnings.catch_warnings(record=True) as w:
                warnings.simplefilter("always")
                r=optimize(Scheme(model,p,{"d":ds},maximum_number_function_evaluations=3),verbose=False,raise_exception=False)
            out=("RESULT",r.success, "inj" in r.termination_reason or "Inject" in r.termination_reason or codes[tgt[0]] in r.termination_reason)
        except InitialParameterError: out=("InitialParameterError",)
        except Exception as e: out=("ESCAPED",type(e).__name__,str(e)[:60])
        finally:
            mon.set_local_events(TOOL,tgt[0],0); OP.Optimizer.objective_function=orig_of
        n+=1
        ok = state["fired"] and sys.stdout is before and snap=={q.label:q.value for q in p.all()} and ((at_eval==1 and out[0]=="InitialParameterError") or (at_eval>1 and out==("RESULT",False,True)))
        outcomes[out]=outcomes.get(out,0)+1
        if not ok: bad.append((at_eval,codes[tgt[0]],tgt[1],out,state["fired"]))
mon.free_tool_id(TOOL)
print("line-level injections",n,"outcomes",outcomes,"unexpected",len(bad)); print(bad[:6])
# (b) non-finite matrix at evaluation k via wrapper
import glotaran.builtin.megacomplexes.decay.decay_parallel_megacomplex as DP
orig_cm=DP.DecayParallelMegacomplex.calculate_matrix
for k in (1,2,5):
    cnt={"n":0}
    def cm(self,dm,ga,ma,**kw):
        cnt["n"]+=1; lab,m=orig_cm(self,dm,ga,ma,**kw)
        if cnt["n"]==k: m=m.copy(); m[3,0]=np.nan
        return lab,m
    DP.DecayParallelMegacomplex.calculate_matrix=cm
    try:
        with warnings.catch_warnings(record=True) as w:
            warnings.simplefilter("always")
            r=optimize(Scheme(model,p,{"d":ds},maximum_number_function_evaluations=5),verbose=False)
        print("NaN at",k,"->",r.success,r.termination_reason[:60],"finite params",all(np.isfinite(q.value) for q in r.optimized_parameters.all()), "nfev",r.number_of_function_evaluations)
    except Exception as e: print("NaN at",k,"-> EXC",type(e).__name__,str(e)[:70])
    finally: DP.DecayParallelMegacomplex.calculate_matrix=orig_cm
