from common import *
import tempfile, os
from glotaran.io import save_dataset, load_dataset
from glotaran.builtin.io.ascii.wavelength_time_explicit_file import DataFileType
d = tempfile.mkdtemp()
rng = np.random.default_rng(0)
def case(nt, ns, order, fmt):
    t = np.sort(rng.uniform(-1,10,nt)); s = np.sort(rng.uniform(400,700,ns))
    vals = rng.normal(size=(nt,ns))
    da = xr.DataArray(vals, coords=[("time",t),("spectral",s)])
    if order=="st": da = da.transpose("spectral","time")
    f = os.path.join(d, f"x_{nt}_{ns}_{order}_{fmt.name}.ascii")
    try:
        save_dataset(da, f, file_format=fmt)
        back = load_dataset(f).data
        ok = np.allclose(back.transpose("time","spectral").values, vals, rtol=1e-9, atol=1e-12) and np.allclose(back.time, t) and np.allclose(back.spectral, s, rtol=1e-9)
        return ok, back.dims, back.shape
    except Exception as e:
        return "EXC", type(e).__name__, str(e)[:80]
for nt,ns in ((5,3),(4,4),(1,3),(3,1),(2,2)):
    for order in ("ts","st"):
        for fmt in DataFileType:
            print(nt,ns,order,fmt.name, case(nt,ns,order,fmt))
