from common import *
M = Model.create_class_from_megacomplexes([DampedOscillationMegacomplex, DecayParallelMegacomplex, CoherentArtifactMegacomplex])
def mk(irf=None, shift=None):
    spec = {
     "megacomplex": {"m": {"type":"damped-oscillation","labels":["o1","o2"],"frequencies":["f1","f2"],"rates":["r1","r2"]},
                     "d": {"type":"decay-parallel","compartments":["s1"],"rates":["r1"]},
                     "c": {"type":"coherent-artifact","order":1}},
     "dataset": {"d": {"megacomplex":["m"]}, "d2": {"megacomplex":["d"]}, "d3": {"megacomplex":["c"]}},
    }
    if irf:
        spec["irf"] = {"i": {"type":"multi-gaussian","center":["c"],"width":["w"]}}
        if shift: spec["irf"]["i"]["shift"]=["s1","s2"]
        for d in spec["dataset"].values(): d["irf"]="i"
    return M(**spec)
p = Parameters.from_list([["f1",50.],["f2",120.],["r1",0.3],["r2",0.7],["c",1.0],["w",0.1],["s1",0.0],["s2",0.5]])
t = np.linspace(-1,5,601)
model = mk()
dm = fill_item(model.dataset["d"], model, p)
labels, mat = dm.megacomplex[0].calculate_matrix(dm, np.array([0.,1.]), t)
print(labels)
for i,(f,r) in enumerate([(50.,0.3),(120.,0.7)]):
    w = f*0.03*2*np.pi
    cos = np.exp(-r*t)*np.cos(w*t); sin = -np.exp(-r*t)*np.sin(w*t)
    print("osc",i,"cos label col err", np.abs(mat[:,labels.index(f"o{i+1}_cos")]-cos).max(), "sin label err", np.abs(mat[:,labels.index(f"o{i+1}_sin")]-sin).max())
# with IRF: value far before the pulse
model = mk(irf=True)
dm = fill_item(model.dataset["d"], model, p)
labels, mat = dm.megacomplex[0].calculate_matrix(dm, np.array([0.,1.]), t)
print("with irf, t=-1 (10 sigma before pulse):", mat[0])
# shift sign
model = mk(irf=True, shift=True)
for ds in ("d","d2","d3"):
    dm = fill_item(model.dataset[ds], model, p)
    labels, mat = dm.megacomplex[0].calculate_matrix(dm, np.array([0.,1.]), t)
    # locate the rise / max position for index 1 (shift .5)
    col = mat[1][:,0]-mat[1][0,0]
    if ds=="d3": pos = t[np.argmax(col)]
    else: pos = t[np.argmax(np.abs(np.gradient(col))>0.5*np.abs(np.gradient(col)).max())]
    print(ds, "index1 feature position ~", pos, " (center 1.0, shift .5)")
