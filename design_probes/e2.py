from common import *
from scipy.linalg import expm
# C04: chain K with j=[0.5,0.5,0]
M = Model.create_class_from_megacomplexes([DecayMegacomplex])
model = M(**{
 "megacomplex": {"m": {"type":"decay","k_matrix":["k"]}},
 "k_matrix": {"k": {"matrix": {("s2","s1"):"k1", ("s3","s2"):"k2", ("s3","s3"):"k3"}}},
 "initial_concentration": {"j": {"compartments":["s1","s2","s3"], "parameters":["j1","j2","j3"]}},
 "dataset": {"d": {"megacomplex":["m"], "initial_concentration":"j"}},
})
for jv in ([1,0,0],[0.5,0.5,0],[0,1,0],[1,1,0]):
    p = Parameters.from_dict({"k1":[["1",0.5]] , "x":[["1",1.0]]})
    p = Parameters.from_list([["k1",0.5],["k2",0.3],["k3",0.1],["j1",float(jv[0])],["j2",float(jv[1])],["j3",float(jv[2])]])
    dm = fill_item(model.dataset["d"], model, p)
    t = np.linspace(0,10,21)
    labels, mat = dm.megacomplex[0].calculate_matrix(dm, np.array([0.]), t)
    K = np.array([[-0.5,0,0],[0.5,-0.3,0],[0,0.3,-0.1]])
    j = np.array(jv,float); j=j/j.sum()
    ref = np.array([expm(K*tt)@j for tt in t])
    print(jv, labels, "max err", np.abs(mat-ref).max())
