from common import *
import copy, itertools
mcs = [DecayMegacomplex, DecayParallelMegacomplex, DecaySequentialMegacomplex, DampedOscillationMegacomplex, CoherentArtifactMegacomplex, BaselineMegacomplex, SpectralMegacomplex, PFIDMegacomplex]
M = Model.create_class_from_megacomplexes(mcs)
spec = {
 "megacomplex": {
   "dec": {"type":"decay","k_matrix":["km1","km2"]},
   "par": {"type":"decay-parallel","compartments":["p1","p2"],"rates":["r.p1","r.p2"]},
   "seq": {"type":"decay-sequential","compartments":["q1","q2"],"rates":["r.q1","r.q2"]},
   "osc": {"type":"damped-oscillation","labels":["o1"],"frequencies":["o.f1"],"rates":["o.r1"]},
   "art": {"type":"coherent-artifact","order":2,"width":"a.w"},
   "bas": {"type":"baseline","dimension":"time"},
   "spe": {"type":"spectral","shape":{"s1":"sh1","s2":"sh2"}},
   "pf": {"type":"pfid","labels":["f1"],"frequencies":["pf.f"],"rates":["pf.r"]},
 },
 "k_matrix": {"km1":{"matrix":{("s2","s1"):"k.1",("s2","s2"):"k.2"}}, "km2":{"matrix":{("s3","s2"):"k.3"}}},
 "initial_concentration": {"ic":{"compartments":["s1","s2","s3"],"parameters":["j.1","j.0","j.0"]}},
 "irf": {"irf1":{"type":"spectral-multi-gaussian","center":["i.c"],"width":["i.w1","i.w2"],"scale":["i.s1","i.s2"],"dispersion_center":"i.dc","center_dispersion_coefficients":["i.cd1"],"width_dispersion_coefficients":["i.wd1"], "backsweep":True, "backsweep_period":"i.bp"},
         "irf2":{"type":"gaussian","center":"i.c","width":"i.w1","shift":["i.sh1","i.sh2","i.sh3"]}},
 "shape": {"sh1":{"type":"gaussian","amplitude":"sh.a","location":"sh.l","width":"sh.w"}, "sh2":{"type":"skewed-gaussian","location":"sh.l","width":"sh.w","skewness":"sh.s"}},
 "clp_constraints":[{"type":"zero","target":"s1","interval":[(1,2)]}],
 "clp_relations":[{"source":"s1","target":"s2","parameter":"rel.p"}],
 "clp_penalties":[{"type":"equal_area","source":"s1","source_intervals":[(1,2)],"target":"s2","target_intervals":[(1,2)],"parameter":"pen.p","weight":1.0}],
 "weights":[{"datasets":["d1"],"value":2.0}],
 "dataset_groups":{"g2":{"residual_function":"non_negative_least_squares","link_clp":False}},
 "dataset": {
   "d1":{"megacomplex":["dec","par","osc","art","bas"],"megacomplex_scale":["ms.1","ms.2","ms.3","ms.4","ms.5"],"initial_concentration":"ic","irf":"irf1","scale":"sc.1",
         "global_megacomplex":["spe"],"global_megacomplex_scale":["gs.1"]},
   "d2":{"megacomplex":["seq","pf"],"irf":"irf2","group":"g2"},
 },
}
model = M(**copy.deepcopy(spec))
labels = sorted(model.get_parameter_labels())
print(len(labels), "parameter labels found by model:", labels)
expected = {"r.p1","r.p2","r.q1","r.q2","o.f1","o.r1","a.w","pf.f","pf.r","k.1","k.2","k.3","j.1","j.0","i.c","i.w1","i.w2","i.s1","i.s2","i.dc","i.cd1","i.wd1","i.bp","i.sh1","i.sh2","i.sh3","sh.a","sh.l","sh.w","sh.s","rel.p","pen.p","ms.1","ms.2","ms.3","ms.4","ms.5","gs.1","sc.1"}
print("missing from discovery:", sorted(expected-set(labels)), "extra:", sorted(set(labels)-expected))
p = model.generate_parameters()
print("valid with generated params:", model.valid(p), str(model.validate(p))[:200])
# remove each param in turn
miss=[]
for l in sorted(expected):
    q = Parameters({k:v for k,v in p._parameters.items() if k!=l})
    try:
        s = str(model.validate(q))
        if l not in s: miss.append((l,"not reported"))
    except Exception as e: miss.append((l,type(e).__name__))
print("param removal not reported:", miss)
# remove each model item definition in turn
miss=[]
for sect,lab in [("k_matrix","km1"),("k_matrix","km2"),("initial_concentration","ic"),("irf","irf1"),("irf","irf2"),("shape","sh1"),("shape","sh2"),("megacomplex","dec"),("megacomplex","spe"),("megacomplex","pf"),("dataset_groups","g2")]:
    s2 = copy.deepcopy(spec); del s2[sect][lab]
    try:
        m2 = M(**s2); s = str(m2.validate(p))
        if f"'{lab}'" not in s: miss.append((sect,lab,"not reported", s[:80]))
    except Exception as e: miss.append((sect,lab,type(e).__name__, str(e)[:60]))
print("item removal problems:", miss)
