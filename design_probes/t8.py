import warnings; warnings.filterwarnings("ignore")
import numpy as np, mpmath as mp
from scipy.special import wofz, erfc
from t6 import DO
mp.mp.dps = 40
def ref_mp(k, tau, s):
    k=mp.mpc(k.real,k.imag); tau=mp.mpf(float(tau)); s=mp.mpf(float(s))
    return complex(mp.exp(k*k*s*s/2 - k*tau)*mp.erfc((k*s*s - tau)/(s*mp.sqrt(2))))   # = 2 * conv
rng=np.random.default_rng(1); eps=2.2e-16
stats={"in":0,"out":0,"viol_in":0,"viol_out":0}; worst_in=0; wc=None
for _ in range(400):
    nu = rng.uniform(0,2000); g = 10**rng.uniform(-3,1.5); s = 10**rng.uniform(-3,0.7); c = rng.uniform(-1,1)
    t = c + s*rng.uniform(-4.9,60,30); tau=t-c
    om = nu*0.03*2*np.pi; k=complex(g,om)
    M = DO(np.array([om]), np.array([g]), t, c, s, 0.0, 1.0); impl=M[:,0]+1j*M[:,1]
    ref = np.array([ref_mp(k,x,s) for x in tau])
    z = (k*s*s - tau)/(s*np.sqrt(2))
    cond = 1 + np.abs(k*tau) + tau**2/s**2 + np.abs(k)**2*s*s
    tol = 64*eps*cond*(np.abs(ref) + 1e-3*np.abs(ref).max()) + 1e-300
    bad = np.abs(impl-ref) > tol
    regime = z.real > 3
    stats["in"]+= int((~regime).sum()); stats["out"]+=int(regime.sum())
    stats["viol_in"]+= int((bad&~regime).sum()); stats["viol_out"]+=int((bad&regime).sum())
    sl=(np.abs(impl-ref)/tol)*(~regime)
    if sl.max()>worst_in: i=sl.argmax(); worst_in=sl.max(); wc=(nu,g,s,tau[i],impl[i],ref[i],z[i])
print(stats, "worst slack in stable regime", worst_in, wc)
