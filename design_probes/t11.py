from common import *
import itertools
from glotaran.optimization.matrix_provider import MatrixProvider
M = Model.create_class_from_megacomplexes([DecayMegacomplex, DecayParallelMegacomplex, BaselineMegacomplex, CoherentArtifactMegacomplex])
def spec(order_comp, mc_order, irf_kind):
    comp = ["s1","s2","s3"]; jv={"s1":"j1","s2":"j0","s3":"j0"}
    s = {
     "megacomplex": {"dec":{"type":"decay","k_matrix":["km"]}, "par":{"type":"decay-parallel","compartments":["s3","s1"],"rates":["rp1","rp2"]}, "bas":{"type":"baseline","dimension":"time"}, "art":{"type":"coherent-artifact","order":2}},
     "k_matrix":{"km":{"matrix":{("s2","s1"):"k1",("s3","s2"):"k2",("s3","s3"):"k3",("s1","s2"):"k4"}}},
     "initial_concentration":{"ic":{"compartments":[comp[i] for i in order_comp],"parameters":[jv[comp[i]] for i in order_comp]}},
     "irf":{"g":{"type":"gaussian","center":"c","width":"w"}, "d":{"type":"spectral-gaussian","center":"c","width":"w","dispersion_center":"dc","center_dispersion_coefficients":["cd1"]}},
     "dataset":{"d1":{"megacomplex":mc_order,"megacomplex_scale":[{"dec":"ms1","par":"ms2","bas":"ms3","art":"ms4"}[m] for m in mc_order],"initial_concentration":"ic"}},
    }
    if irf_kind: s["dataset"]["d1"]["irf"]=irf_kind
    return s
p = Parameters.from_list([["k1",0.9],["k2",0.3],["k3",0.05],["k4",0.1],["rp1",2.0],["rp2",0.02],["j1",1.0],["j0",0.0,{"vary":False}],["c",0.5],["w",0.15],["dc",550.0,{"vary":False}],["cd1",0.3],["ms1",1.3],["ms2",0.6],["ms3",2.0],["ms4",0.8]])
t=np.linspace(-1,20,150); g=np.array([500.,550,600,650])
rng=np.random.default_rng(0); D=rng.normal(size=(t.size,g.size))
for irf in (None,"g","d"):
    mcs = ["dec","par","bas"]+(["art"] if irf else [])
    base=None; worst=0; worstclp=0
    for oc in itertools.permutations(range(3)):
        for mo in itertools.permutations(mcs):
            model=M(**spec(list(oc),list(mo),irf))
            data={"d1":xr.DataArray(D,coords=[("time",t),("spectral",g)]).to_dataset(name="data")}
            r=optimize(Scheme(model,p,data,maximum_number_function_evaluations=1),verbose=False,raise_exception=True)
            ds=r.data["d1"]
            labs=sorted(ds.clp_label.values.tolist())
            mat=ds.matrix.sel(clp_label=labs); clp=ds.clp.sel(clp_label=labs)
            if mat.ndim==2: mat=mat.expand_dims(spectral=g).transpose("spectral","time","clp_label")
            else: mat=mat.transpose("spectral","time","clp_label")
            if base is None: base=(labs,mat.values,clp.values,r.cost)
            else:
                assert labs==base[0]
                worst=max(worst,np.abs(mat.values-base[1]).max()); worstclp=max(worstclp,np.abs(clp.values-base[2]).max()/np.abs(base[2]).max())
    print("irf",irf,"labels",base[0],"max matrix diff over perms",worst,"max rel clp diff",worstclp)
