import warnings; warnings.filterwarnings("ignore")
import numpy as np
from scipy.special import wofz
from scipy.integrate import quad
from glotaran.builtin.megacomplexes.damped_oscillation.damped_oscillation_megacomplex import calculate_damped_oscillation_matrix_gaussian_irf as DO
from glotaran.builtin.megacomplexes.pfid.pfid_megacomplex import calculate_pfid_matrix_gaussian_irf as PF
def conv_causal(k, tau, s):
    # 0.5*exp(k^2 s^2/2 - k tau) erfc((k s^2 - tau)/(s sqrt2)) = 0.5 exp(-tau^2/(2 s^2)) w(i z), z=(k s^2 - tau)/(s sqrt2)
    z = (k*s*s - tau)/(s*np.sqrt(2))
    return 0.5*np.exp(-tau**2/(2*s*s))*wofz(1j*z)
def conv_anticausal(k, tau, s):
    # int_{-inf}^0 exp(-k u) N(tau-u) du = 0.5 exp(k^2 s^2/2 - k tau) erfc((tau - k s^2)/(s sqrt2)); z=(tau-k s^2)/(s sqrt 2)
    z = (tau - k*s*s)/(s*np.sqrt(2))
    return 0.5*np.exp(-tau**2/(2*s*s))*wofz(1j*z)
rng=np.random.default_rng(0)
worst=0; worstp=0; w_pre=0
for _ in range(3000):
    nu = rng.uniform(0,2000); g = 10**rng.uniform(-3,1.5); s = 10**rng.uniform(-3,0.7); c = rng.uniform(-1,1)
    t = c + s*rng.uniform(-20,60,40)
    om = nu*0.03*2*np.pi
    k = g+1j*om
    M = DO(np.array([om]), np.array([g]), t, c, s, 0.0, 1.0)
    impl = M[:,0]+1j*M[:,1]
    ref = 2*conv_causal(k, t-c, s)
    post = (t-c) > -5*s
    scale = max(np.abs(ref).max(),1e-300)
    err = np.abs(impl-ref)[post].max()/scale if post.any() else 0
    pre = np.abs(impl[~post]).max() if (~post).any() else 0; w_pre=max(w_pre, np.abs(ref[~post]).max() if (~post).any() else 0)
    if err>worst: worst=err; wc=(nu,g,s,scale)
    # PFID
    gp = -g; nu_probe = nu + rng.uniform(-50,50)
    Mp = PF(np.array([nu]), np.array([gp]), t, c, s, 0.0, 1.0, nu_probe)
    implp = Mp[:,0]+1j*Mp[:,1]
    kp = gp + 1j*(nu_probe-nu)*0.03*2*np.pi
    refp = -2*conv_anticausal(kp, t-c, s)
    pm = (t-c) < 5*s
    scp = max(np.abs(refp).max(),1e-300)
    e2 = np.abs(implp-refp)[pm].max()/scp if pm.any() else 0
    if e2>worstp: worstp=e2; wpc=(nu,gp,s,scp)
print("DOAS worst rel-to-peak err", worst, wc, " max true magnitude in truncated region:", w_pre)
print("PFID worst", worstp, wpc)
# quad spot check of oracle
k=0.7+1j*3.0; s=0.3; tau=0.4
f=lambda u: np.exp(-k*u)*np.exp(-(tau-u)**2/(2*s*s))/(s*np.sqrt(2*np.pi))
re=quad(lambda u: f(u).real,0,tau+10*s)[0]; im=quad(lambda u: f(u).imag,0,tau+10*s)[0]
print("oracle vs quad:", abs(conv_causal(k,tau,s)-(re+1j*im)))
