# C14: simulate -> objective at truth ~ 0, clps recovered, optimiser stays, recovery from 10-20 % perturbation
from common import *
rng=np.random.default_rng(0)
ALL=[DecayMegacomplex, DecayParallelMegacomplex, DecaySequentialMegacomplex, DampedOscillationMegacomplex, CoherentArtifactMegacomplex, BaselineMegacomplex, SpectralMegacomplex]
M=Model.create_class_from_megacomplexes(ALL)
t=np.concatenate([np.linspace(-1,1,80),np.linspace(1.05,40,120)]); lam=np.linspace(600,700,12)
def run(name, spec, params, clp_labels=None, full=False, free=()):
    model=M(**spec); used=model.get_parameter_labels(); p=Parameters.from_list([q for q in params if q[0] in used])
    assert model.valid(p), model.validate(p)
    data={}
    for d in spec["dataset"]:
        if full: ds=simulate(model,d,p,{"time":t,"spectral":lam})
        else:
            labs=clp_labels[d]
            if "shared" not in globals() or shared.shape[1]!=len(labs): globals()["shared"]=rng.uniform(0.5,2,(lam.size,len(labs)))
            scl = p.get(spec["dataset"][d]["scale"]).value if "scale" in spec["dataset"][d] else 1.0
            clp=xr.DataArray(shared*scl,coords=[("spectral",lam),("clp_label",labs)])
            ds=simulate(model,d,p,{"time":t,"spectral":lam},clp); ds.attrs["clp"]=clp
        data[d]=ds
    sch=Scheme(model,p,data,maximum_number_function_evaluations=60)
    opt=Optimizer(sch,verbose=False,raise_exception=True); l,x0,_,_=p.get_label_value_and_bounds_arrays(exclude_non_vary=True); opt._free_parameter_labels=l
    pen=opt.objective_function(x0)
    out=[f"|pen|inf/|data|inf={np.abs(pen).max()/max(np.abs(d.data).max() for d in data.values()):.1e}"]
    r0=optimize(sch,verbose=False,raise_exception=True)
    drift=max(abs(r0.optimized_parameters.get(k).value-p.get(k).value)/abs(p.get(k).value) for k in l)
    out.append(f"drift from truth {drift:.1e} nfev {r0.number_of_function_evaluations}")
    if not full:
        for d in data:
            est=r0.data[d].clp; gen=data[d].attrs["clp"]
            sc=r0.data[d].attrs["dataset_scale"]
            e=float(np.abs(est.sel(clp_label=gen.clp_label.values).values*sc-gen.values).max())
            out.append(f"clp err {d} {e:.1e}")
    p2=p.copy()
    for k in l: p2.get(k).value*= (1+rng.uniform(0.1,0.2)*rng.choice([-1,1]))
    r=optimize(Scheme(model,p2,data,maximum_number_function_evaluations=200),verbose=False,raise_exception=True)
    rec=max(abs(r.optimized_parameters.get(k).value-p.get(k).value)/abs(p.get(k).value) for k in l)
    out.append(f"recovery err {rec:.1e} nfev {r.number_of_function_evaluations} ({r.termination_reason[:30]})")
    print(name,"|"," ; ".join(out))
irf={"g":{"type":"gaussian","center":"c","width":"w"}}
disp={"g":{"type":"spectral-gaussian","center":"c","width":"w","dispersion_center":"dc","center_dispersion_coefficients":["cd1","cd2"]}}
base=[["k1",1.1],["k2",0.25],["k3",0.04],["c",0.1,{"vary":True}],["w",0.08],["dc",650.0,{"vary":False}],["cd1",0.05],["cd2",-0.01],["one",1.0,{"vary":False}],["zero",0.0,{"vary":False}]]
cases=[
 ("seq+irf+baseline", {"megacomplex":{"s":{"type":"decay-sequential","compartments":["a","b","c"],"rates":["k1","k2","k3"]},"b":{"type":"baseline","dimension":"time"}},"irf":irf,"dataset":{"d":{"megacomplex":["s","b"],"irf":"g"}}}, base, {"d":["a","b","c","d_baseline"]}, False),
 ("par no irf", {"megacomplex":{"s":{"type":"decay-parallel","compartments":["a","b","c"],"rates":["k1","k2","k3"]}},"dataset":{"d":{"megacomplex":["s"]}}}, base, {"d":["a","b","c"]}, False),
 ("general+disp irf+artifact", {"megacomplex":{"s":{"type":"decay","k_matrix":["km"]},"a":{"type":"coherent-artifact","order":3}},"k_matrix":{"km":{"matrix":{("b","a"):"k1",("c","b"):"k2",("c","c"):"k3"}}},"initial_concentration":{"ic":{"compartments":["a","b","c"],"parameters":["one","zero","zero"]}},"irf":disp,"dataset":{"d":{"megacomplex":["s","a"],"irf":"g","initial_concentration":"ic"}}}, base, {"d":["a","b","c","coherent_artifact_1_a","coherent_artifact_2_a","coherent_artifact_3_a"]}, False),
 ("par + osc no irf", {"megacomplex":{"s":{"type":"decay-parallel","compartments":["a","b"],"rates":["k2","k3"]},"o":{"type":"damped-oscillation","labels":["o1"],"frequencies":["f"],"rates":["g"]}},"dataset":{"d":{"megacomplex":["s","o"]}}}, base+[["f",25.0],["g",0.3]], {"d":["a","b","o1_cos","o1_sin"]}, False),
 ("par + osc + irf", {"megacomplex":{"s":{"type":"decay-parallel","compartments":["a","b"],"rates":["k2","k3"]},"o":{"type":"damped-oscillation","labels":["o1"],"frequencies":["f"],"rates":["g"]}},"irf":irf,"dataset":{"d":{"megacomplex":["s","o"],"irf":"g"}}}, base+[["f",25.0],["g",0.3]], {"d":["a","b","o1_cos","o1_sin"]}, False),
 ("full model par x spectral", {"megacomplex":{"s":{"type":"decay-parallel","compartments":["a","b"],"rates":["k1","k3"]},"sp":{"type":"spectral","shape":{"a":"sh1","b":"sh2"}}},"shape":{"sh1":{"type":"gaussian","amplitude":"amp1","location":"l1","width":"w1"},"sh2":{"type":"skewed-gaussian","amplitude":"amp2","location":"l2","width":"w2","skewness":"sk"}},"dataset":{"d":{"megacomplex":["s"],"global_megacomplex":["sp"]}}}, base+[["amp1",3.0],["l1",630.0],["w1",30.0],["amp2",2.0],["l2",670.0],["w2",25.0],["sk",0.3]], None, True),
 ("two datasets linked + scale", {"megacomplex":{"s":{"type":"decay-parallel","compartments":["a","b"],"rates":["k1","k3"]}},"dataset_groups":{"default":{"link_clp":True}},"dataset":{"d1":{"megacomplex":["s"]},"d2":{"megacomplex":["s"],"scale":"sc"}}}, base+[["sc",2.0,{"vary":False}]], {"d1":["a","b"],"d2":["a","b"]}, False),
]
for c in cases:
    try: run(c[0],c[1],c[2],c[3],c[4])
    except Exception as e:
        import traceback; print(c[0],"EXC",type(e).__name__,str(e)[:150])
# detail for the dispersed case
c=cases[2]; spec=c[1]; model=M(**spec); used=model.get_parameter_labels(); p=Parameters.from_list([q for q in c[2] if q[0] in used])
labs=c[3]["d"]; clp=xr.DataArray(rng.uniform(0.5,2,(lam.size,len(labs))),coords=[("spectral",lam),("clp_label",labs)])
ds=simulate(model,"d",p,{"time":t,"spectral":lam},clp)
for trial in range(6):
    p2=p.copy()
    l,_,_,_=p.get_label_value_and_bounds_arrays(exclude_non_vary=True)
    for k in l: p2.get(k).value*= (1+rng.uniform(0.1,0.2)*rng.choice([-1,1]))
    r=optimize(Scheme(model,p2,{"d":ds},maximum_number_function_evaluations=200),verbose=False,raise_exception=True)
    print("trial",trial,"cost",float(r.cost),"term",r.termination_reason[:25],{k:(round(p2.get(k).value,4),round(r.optimized_parameters.get(k).value,4),p.get(k).value) for k in l})
