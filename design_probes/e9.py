from common import *
import sys, io, contextlib
from glotaran.testing.simulated_data.sequential_spectral_decay import DATASET, MODEL, PARAMETERS
import glotaran.builtin.megacomplexes.decay.util as U
from glotaran.optimization.optimizer import InitialParameterError
import glotaran.optimization.optimization_group as OG
orig = OG.OptimizationGroup.calculate
def run(k, raise_exception=False, verbose=False, method="TrustRegionReflection", nonfinite=False):
    cnt = {"n":0}
    def calc(self, parameters):
        cnt["n"]+=1
        if cnt["n"]==k:
            raise RuntimeError(f"injected at {k}")
        return orig(self, parameters)
    OG.OptimizationGroup.calculate = calc
    p = PARAMETERS.copy()
    for x in p.all():
        if x.vary: x.value *= 1.1
    scheme = Scheme(MODEL, p, {"dataset_1": DATASET}, maximum_number_function_evaluations=8, optimization_method=method)
    before = sys.stdout
    try:
        with contextlib.redirect_stdout(io.StringIO()) as buf:
            inner = sys.stdout
            try:
                r = optimize(scheme, verbose=verbose, raise_exception=raise_exception)
                out = ("RESULT", r.success, r.termination_reason[:40], r.number_of_function_evaluations, len(r.parameter_history))
            except Exception as e:
                out = ("EXC", type(e).__name__, str(e)[:60])
            restored = sys.stdout is inner
    finally:
        OG.OptimizationGroup.calculate = orig
    return cnt["n"], out, "stdout restored:", restored
for k in range(1, 14):
    print(k, run(k))
print("raise", run(3, raise_exception=True))
print("verbose", run(3, verbose=True))
