# C04: random compartmental schemes vs expm; A-matrix / rates identities; conservation
from common import *
from scipy.linalg import expm
import itertools
M = Model.create_class_from_megacomplexes([DecayMegacomplex])
rng=np.random.default_rng(0)
stats={"n":0,"skipped_complex":0,"bad":0,"seq_path":0}; worst=0; bads=[]
for trial in range(1500):
    n=int(rng.integers(2,6)); comps=[f"s{i}" for i in range(n)]
    kind=rng.choice(["chain","branch","reversible","parallel","random"])
    entries={}
    def rate(): return float(10**rng.uniform(-3,3))
    if kind=="chain":
        for i in range(n-1): entries[(comps[i+1],comps[i])]=rate()
        if rng.integers(2): entries[(comps[-1],comps[-1])]=rate()
    elif kind=="branch":
        for i in range(1,n): entries[(comps[i],comps[int(rng.integers(0,i))])]=rate()
        for i in range(n):
            if rng.integers(2): entries[(comps[i],comps[i])]=rate()
    elif kind=="reversible":
        for i in range(n-1):
            entries[(comps[i+1],comps[i])]=rate(); entries[(comps[i],comps[i+1])]=rate()
        entries[(comps[-1],comps[-1])]=rate()
    elif kind=="parallel":
        for i in range(n): entries[(comps[i],comps[i])]=rate()
    else:
        for i,j in itertools.permutations(range(n),2):
            if rng.random()<0.35: entries[(comps[i],comps[j])]=rate()
        for i in range(n):
            if rng.random()<0.5: entries[(comps[i],comps[i])]=rate()
    if not entries: continue
    # reference K
    K=np.zeros((n,n))
    for (to,fr),v in entries.items():
        i,j=comps.index(to),comps.index(fr)
        if i==j: K[i,i]-=v
        else: K[i,j]+=v; K[j,j]-=v
    ev=np.linalg.eigvals(K)
    if np.abs(ev.imag).max()>1e-12*np.abs(ev).max(): stats["skipped_complex"]+=1; continue
    evs=np.sort(ev.real); gaps=np.diff(evs); 
    if (np.abs(gaps) < 1e-3*np.abs(evs).max()).any() and n>1: 
        # near-degenerate relative to spectrum scale: keep only if relative gap to neighbours ok
        if (np.abs(gaps)/np.maximum(np.abs(evs[1:]),np.abs(evs[:-1]))<1e-3).any(): stats["skipped_complex"]+=1; continue
    # declaration order and initial concentration
    order=list(rng.permutation(n)); pattern=rng.choice(["first","single","several","all"])
    j=np.zeros(n)
    if pattern=="first": j[order[0]]=1
    elif pattern=="single": j[int(rng.integers(n))]=1
    elif pattern=="several": j[rng.choice(n,size=max(2,n//2),replace=False)]=rng.uniform(0.2,2,max(2,n//2))
    else: j[:]=rng.uniform(0.2,2,n)
    excl=[comps[i] for i in range(n) if rng.random()<0.2] if rng.integers(3)==0 else []
    pl=[[f"k{a}",v] for a,(_,v) in enumerate(entries.items())]+[[f"j{i}",float(j[i])] for i in range(n)]
    kspec={key:f"k{a}" for a,key in enumerate(entries)}
    # split into two k-matrices sometimes
    keys=list(kspec)
    if len(keys)>1 and rng.integers(2):
        cut=int(rng.integers(1,len(keys))); km={"k1":{"matrix":{k:kspec[k] for k in keys[:cut]}},"k2":{"matrix":{k:kspec[k] for k in keys[cut:]}}}; kl=["k1","k2"]
    else: km={"k1":{"matrix":kspec}}; kl=["k1"]
    dcomps=[comps[i] for i in order]
    spec={"megacomplex":{"m":{"type":"decay","k_matrix":kl}},"k_matrix":km,
          "initial_concentration":{"ic":{"compartments":dcomps,"parameters":[f"j{comps.index(c)}" for c in dcomps],"exclude_from_normalize":excl}},
          "dataset":{"d":{"megacomplex":["m"],"initial_concentration":"ic"}}}
    model=M(**spec); p=Parameters.from_list(pl)
    dm=fill_item(model.dataset["d"],model,p)
    t=np.sort(np.concatenate([[0.0],10**rng.uniform(-4,3,12)]))
    try:
        labels,mat=dm.megacomplex[0].calculate_matrix(dm,np.array([0.]),t)
    except Exception as e:
        bads.append((kind,n,pattern,type(e).__name__,str(e)[:60])); stats["bad"]+=1; continue
    jn=j.copy(); idx=[c not in excl for c in comps]
    if np.sum(jn[idx])!=0: jn[idx]/=np.sum(jn[idx])
    involved=[c for c in comps if any(c in k for k in entries)]
    ref=np.array([expm(K*tt)@jn for tt in t])
    ref=ref[:, [comps.index(c) for c in labels]]
    stats["n"]+=1
    V=np.linalg.eig(K)[1]; tol=1e3*2.2e-16*np.linalg.cond(V)*max(1,np.abs(ref).max())+1e-12
    err=np.abs(mat-ref).max()
    seq = dm.megacomplex[0].get_k_matrix().is_sequential(dm.megacomplex[0].get_compartments(dm), dm.megacomplex[0].get_initial_concentration(dm))
    stats["seq_path"]+=int(seq)
    if err>tol:
        stats["bad"]+=1; bads.append((kind,n,pattern,"seq" if seq else "eig","err",float(err),"tol",float(tol), "excl" if excl else "", "order", order))
    worst=max(worst,err/tol if not (seq and pattern!="first") else 0)
print(stats,"worst slack (excluding known F6 class)",worst)
from collections import Counter
print(Counter((b[0],b[2],b[3]) for b in bads).most_common(12))
print([b for b in bads if b[3]=="eig"][:6])
print([b for b in bads if b[3] not in ("eig","seq")][:8])
