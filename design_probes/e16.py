from e13 import *
def ref_linked(model,p,data,tol,nnls=False, fix_single_scale=False):
    labels=list(data)
    # alignment (nearest)
    T=None; amap={}
    for l in labels:
        g=data[l].spectral.values
        if T is None: T=np.array(g); amap[l]=list(g)
        else:
            m=[]
            for v in g:
                d=np.abs(T-v)
                m.append(T[d.argmin()] if d.min()<=tol else v)
            amap[l]=m; T=np.unique(np.concatenate([T,m]))
    out=[]; clps=[]; lab_per=[]
    mats={l:dataset_matrix(model,p,l,data[l].spectral.values,data[l].time.values) for l in labels}
    for x in T:
        present=[(l,amap[l].index(x)) for l in labels if x in amap[l]]
        full=[]
        for l,_ in present:
            for c in mats[l][0]:
                if c not in full: full.append(c)
        blocks=[];ys=[];ws=[]
        for l,i in present:
            cl,Mx=mats[l]; A=(Mx[i] if Mx.ndim==3 else Mx)
            sc = p.get(model.dataset[l].scale).value if model.dataset[l].scale else 1.0
            if len(present)==1 and not fix_single_scale: sc=1.0   # mirror known defect
            B=np.zeros((A.shape[0],len(full)))
            for j,c in enumerate(cl): B[:,full.index(c)]=A[:,j]*sc
            blocks.append(B); ys.append(data[l].data.values[:,i])
            ws.append(data[l].weight.values[:,i] if "weight" in data[l] else np.ones(A.shape[0]))
        A=np.vstack(blocks); y=np.concatenate(ys); w=np.concatenate(ws)
        rl,A=reduce(model,p,full,A,x)
        A=A*w[:,None]; y=y*w
        c,r=solve(A,y,nnls); out.append(r)
    return np.concatenate(out)
if __name__=="__main__":
    for idxdep,nn,ws,ww,rel,con in itertools.product([False,True],[False,True],[False,True],[False,True],[False,True],[False,True]):
        model,p,data = build(True,[[1,2,3,4.],[0.,1.1,2.5,3,5],[2.,3.05,9]],ws,ww,rel,con,False,nn,idxdep)
        scheme = Scheme(model,p,data,clp_link_tolerance=0.2)
        opt = Optimizer(scheme, verbose=False, raise_exception=True)
        labels,x0,_,_ = p.get_label_value_and_bounds_arrays(exclude_non_vary=True)
        opt._free_parameter_labels=labels
        pen_impl = opt.objective_function(x0)
        pen_ref = ref_linked(model,p,data,0.2,nn)
        ok = pen_impl.shape==pen_ref.shape and np.allclose(pen_impl,pen_ref,atol=1e-9)
        print(dict(idxdep=idxdep,nnls=nn,scale=ws,weight=ww,rel=rel,con=con), "OK" if ok else f"MISMATCH {pen_impl.shape} {pen_ref.shape} {np.abs(pen_impl-pen_ref).max() if pen_impl.shape==pen_ref.shape else ''}")
