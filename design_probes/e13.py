from common import *
import itertools
M = Model.create_class_from_megacomplexes([DecayParallelMegacomplex, BaselineMegacomplex])
rng = np.random.default_rng(3)
def build(link, axes, with_scale, with_w, rel, con, pen, nnls=False, idxdep=False):
    labels = [f"ds{i+1}" for i in range(len(axes))]
    spec = {
     "megacomplex": {"m1": {"type":"decay-parallel","compartments":["s1","s2"],"rates":["r1","r2"]},
                     "m2": {"type":"decay-parallel","compartments":["s2","s3"],"rates":["r3","r4"]},
                     "b": {"type":"baseline","dimension":"time"}},
     "dataset_groups": {"default": {"link_clp": link, "residual_function": "non_negative_least_squares" if nnls else "variable_projection"}},
     "dataset": {l: {"megacomplex":["m1","m2"] if i%2==0 else ["m2","m1"], "megacomplex_scale":["ms1","ms2"]} for i,l in enumerate(labels)},
    }
    if idxdep:
        spec["irf"]={"i":{"type":"spectral-multi-gaussian","center":["c"],"width":["w"],"dispersion_center":"dc","center_dispersion_coefficients":["cd1"]}}
        for l in labels: spec["dataset"][l]["irf"]="i"
    if with_scale:
        for l in labels[1:]: spec["dataset"][l]["scale"]="sc"
    if rel: spec["clp_relations"]=[{"source":"s1","target":"s3","parameter":"rp","interval":[(2,3.5)]}]
    if con: spec["clp_constraints"]=[{"type":"zero","target":"s2","interval":[(1,1.5)]},{"type":"only","target":"s1","interval":(0,4)}]
    if pen: spec["clp_penalties"]=[{"type":"equal_area","source":"s1","source_intervals":[(0,3)],"target":"s2","target_intervals":[(2,10)],"parameter":"pp","weight":0.3}]
    model = M(**spec)
    p = Parameters.from_list([["r1",0.5],["r2",0.1],["r3",0.9],["r4",0.03],["sc",2.0],["ms1",1.5],["ms2",0.7],["rp",0.6],["pp",1.3],["c",0.3],["w",0.1],["dc",2.0,{"vary":False}],["cd1",0.2]])
    t = np.linspace(0,10,25)
    data = {}
    for l,ax in zip(labels,axes):
        ds = xr.DataArray(rng.normal(size=(t.size,len(ax))), coords=[("time",t),("spectral",np.asarray(ax,float))]).to_dataset(name="data")
        if with_w and l!="ds1": ds["weight"] = xr.DataArray(rng.uniform(0.5,2,ds.data.shape), coords=ds.data.coords)
        data[l]=ds
    return model,p,data
def applies(interval, x):
    if interval is None: return True
    ivs = [interval] if isinstance(interval, tuple) else interval
    return any(min(a,b)<=x<=max(a,b) for a,b in ivs)
def dataset_matrix(model,p,label,gaxis,t):
    from glotaran.optimization.matrix_provider import MatrixProvider
    dm = fill_item(model.dataset[label], model, p)
    mc = MatrixProvider.calculate_dataset_matrix(dm, gaxis, t)   # trust for now
    return mc.clp_labels, mc.matrix
def reduce(model,p,labels,A,x):
    labels=list(labels); A=A.copy()
    # relations
    T=np.eye(len(labels)); drop=[]
    for r in model.clp_relations:
        if r.target in labels and r.source in labels and applies(r.interval,x):
            T[labels.index(r.target), labels.index(r.source)] = p.get(r.parameter).value; drop.append(labels.index(r.target))
    keep=[i for i in range(len(labels)) if i not in drop]
    A = A@T[:,keep]; labels=[labels[i] for i in keep]
    rm=[c.target for c in model.clp_constraints if c.target in labels and (applies(c.interval,x) if c.type=="zero" else not applies(c.interval,x))]
    keep=[i for i,l in enumerate(labels) if l not in rm]
    return [labels[i] for i in keep], A[:,keep]
def solve(A,y,nnls):
    if nnls:
        from scipy.optimize import nnls as N
        c,_=N(A,y); return c, y-A@c
    c=np.linalg.lstsq(A,y,rcond=None)[0]; return c,y-A@c
def ref_unlinked(model,p,data,nnls=False):
    out=[]; pens=[]
    for l,ds in data.items():
        t=ds.time.values; g=ds.spectral.values
        labels,Mx = dataset_matrix(model,p,l,g,t)
        sc = p.get(model.dataset[l].scale).value if model.dataset[l].scale else 1.0
        w = ds.weight.values if "weight" in ds else None
        clps=[]
        for i,x in enumerate(g):
            A = (Mx[i] if Mx.ndim==3 else Mx)*sc
            rl,A = reduce(model,p,labels,A,x)
            y = ds.data.values[:,i].copy()
            if w is not None: A=A*w[:,i][:,None]; y=y*w[:,i]
            c,r = solve(A,y,nnls); out.append(r)
            full=dict(zip(rl,c))
            clps.append(full)
        for pen in model.clp_penalties:
            def area(lbl,ivs):
                return [c[lbl] for x,c in zip(g,clps) if lbl in c and applies(ivs,x)]
            # NOTE: relation targets / zeroed clps expanded: ignore in this quick ref
            sa=area(pen.source,pen.source_intervals); ta=area(pen.target,pen.target_intervals)
            if sa and ta: pens.append(abs(sum(sa)-p.get(pen.parameter).value*sum(ta))*pen.weight)
    return np.concatenate(out+[np.array(pens)])
if __name__=="__main__":
     for idxdep,nn,ws,ww,rel,con,pen in itertools.product([False,True],[False,True],[False,True],[False,True],[False,True],[False,True],[False]):
        model,p,data = build(False,[[1,2,3,4.],[0.,1,2.5,3,5]],ws,ww,rel,con,pen,nn,idxdep)
        scheme = Scheme(model,p,data)
        opt = Optimizer(scheme, verbose=False, raise_exception=True)
        labels,x0,_,_ = p.get_label_value_and_bounds_arrays(exclude_non_vary=True)
        opt._free_parameter_labels=labels
        pen_impl = opt.objective_function(x0)
        pen_ref = ref_unlinked(model,p,data,nn)
        ok = pen_impl.shape==pen_ref.shape and np.allclose(pen_impl,pen_ref,atol=1e-9)
        print(dict(idxdep=idxdep,nnls=nn,scale=ws,weight=ww,rel=rel,con=con), "OK" if ok else f"MISMATCH {pen_impl.shape} {pen_ref.shape} {np.abs(pen_impl-pen_ref).max() if pen_impl.shape==pen_ref.shape else ''}")
