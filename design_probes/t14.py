# C18: overwrite protection matrix: every save_* x format x target state x allow_overwrite; audit hook + snapshots
from common import *
import sys, os, tempfile, hashlib, shutil, io, contextlib
from pathlib import Path
from glotaran.io import save_model, save_parameters, save_scheme, save_result, save_dataset
from glotaran.plugin_system.project_io_registration import known_project_formats
from glotaran.plugin_system.data_io_registration import known_data_formats
from glotaran.testing.simulated_data.sequential_spectral_decay import MODEL, PARAMETERS, DATASET
events=[]
def hook(ev,args):
    if ev=="open" and isinstance(args[0],(str,bytes,os.PathLike)) and args[1] and any(c in str(args[1]) for c in "wax+"): events.append(("open",str(args[0]),args[1]))
    elif ev in ("os.remove","os.rename","os.mkdir","os.rmdir","os.truncate","shutil.rmtree","shutil.move","shutil.copyfile"): events.append((ev,)+tuple(str(a) for a in args[:2]))
sys.addaudithook(hook)
with contextlib.redirect_stdout(io.StringIO()):
    RESULT = optimize(Scheme(MODEL,PARAMETERS,{"dataset_1":DATASET},maximum_number_function_evaluations=1),verbose=False)
SCHEME=RESULT.scheme
def snap(root): return {str(p.relative_to(root)):(hashlib.sha256(p.read_bytes()).hexdigest(), p.stat().st_mtime_ns) for p in Path(root).rglob("*") if p.is_file()}
funcs={"model":(save_model,MODEL),"parameters":(save_parameters,PARAMETERS),"scheme":(save_scheme,SCHEME),"result":(save_result,RESULT),"dataset":(save_dataset,DATASET)}
pf=[f for f in known_project_formats() ]+["nosuchformat",None]; df=known_data_formats()+["nosuchformat",None]
rows=[]; bad=[]
for name,(fn,obj) in funcs.items():
    for fmt in (df if name=="dataset" else pf):
        for state in ("file","nonempty_folder"):
            root=Path(tempfile.mkdtemp())
            ext = fmt if fmt and fmt!="nosuchformat" else ("nc" if name=="dataset" else "yml")
            if state=="file":
                target=root/f"target.{ext}"; target.write_bytes(b"PRECIOUS")
            else:
                target=root/"folder"; target.mkdir(); (target/"keep.txt").write_bytes(b"PRECIOUS"); (target/"result.yml").write_bytes(b"PRECIOUS")
            before=snap(root); events.clear()
            try:
                with warnings.catch_warnings():
                    warnings.simplefilter("ignore")
                    fn(obj, target, format_name=fmt) if fmt else fn(obj,target)
                out="NO ERROR"
            except FileExistsError: out="FileExistsError"
            except Exception as e: out=f"{type(e).__name__}: {str(e)[:50]}"
            after=snap(root)
            wrote=[e for e in events if str(root) in e[1]]
            ok = out=="FileExistsError" and before==after and not wrote
            rows.append((name,fmt,state,out,before==after,len(wrote)))
            if not ok: bad.append(rows[-1]+(tuple(wrote),))
            shutil.rmtree(root)
print(len(rows),"refusal cases;",len(bad),"not clean refusals")
for b in bad: print(b)
