# C11: bounds / non-negative / fixed / expression during real fits; transformation round trip
from common import *
import glotaran.optimization.optimizer as OPT
M = Model.create_class_from_megacomplexes([DecayParallelMegacomplex])
rng=np.random.default_rng(0)
viol=[]; nfit=0; nev=0
orig = OPT.Optimizer.objective_function
for trial in range(60):
    method = ["TrustRegionReflection","Dogbox","Levenberg-Marquardt"][trial%3]
    true = {"r1":0.8,"r2":0.15,"r3":0.03}
    spec={"megacomplex":{"m":{"type":"decay-parallel","compartments":["a","b","c"],"rates":["k.r1","k.r2","k.e"]}},"dataset":{"d":{"megacomplex":["m"]}}}
    model=M(**spec)
    opts={}
    plist=[]
    for name in ("r1","r2"):
        o={}
        v=true[name]*rng.uniform(0.7,1.3)
        if method!="Levenberg-Marquardt":
            kind=rng.integers(4)
            if kind==0: o={"min":v*0.9,"max":v*1.05}
            elif kind==1: o={"min":v}          # start on bound
            elif kind==2: o={"max":v*1.2}
        if rng.integers(2): o["non-negative"]=True
        plist.append([name,float(v),o])
    plist.append(["fixed",0.03,{"vary":False}])
    plist.append(["e",{"expr":"$k.fixed * 1.0"}]) if False else plist.append(["ex",{"expr":"$k.fixed*1.0"}])
    p=Parameters.from_dict({"k":plist})
    spec["megacomplex"]["m"]["rates"]=["k.r1","k.r2","k.ex"]
    model=M(**spec)
    ptrue=Parameters.from_dict({"k":[["r1",0.8],["r2",0.15],["fixed",0.03,{"vary":False}],["ex",{"expr":"$k.fixed*1.0"}]]})
    t=np.linspace(0,30,120); g=np.arange(4.)
    clp=xr.DataArray(rng.uniform(0.5,2,(4,3)),coords=[("spectral",g),("clp_label",["a","b","c"])])
    ds=simulate(model,"d",ptrue,{"time":t,"spectral":g},clp,noise=True,noise_std_dev=0.01,noise_seed=trial)
    seen=[]
    def rec(self,x):
        out=orig(self,x)
        seen.append((np.array(x), {q.label:(q.value,q.minimum,q.maximum,q.non_negative,q.vary,q.expression) for q in self._parameters.all()}))
        return out
    OPT.Optimizer.objective_function=rec
    try:
        r=optimize(Scheme(model,p,{"d":ds},maximum_number_function_evaluations=15,optimization_method=method),verbose=False,raise_exception=True)
    except Exception as e:
        viol.append((trial,method,"EXC",type(e).__name__,str(e)[:80])); continue
    finally: OPT.Optimizer.objective_function=orig
    nfit+=1; nev+=len(seen)
    for x,st in seen:
        for lab,(v,mn,mx,nn,vary,expr) in st.items():
            if not (mn<=v<=mx): viol.append((trial,method,lab,"out of bounds",v,mn,mx))
            if nn and not v>0: viol.append((trial,method,lab,"nonpositive",v))
        if st["k.fixed"][0]!=0.03: viol.append((trial,"fixed moved"))
        if st["k.ex"][0]!=0.03: viol.append((trial,"expr moved",st["k.ex"][0]))
    if set(r.free_parameter_labels)!={"k.r1","k.r2"}: viol.append((trial,"free labels",r.free_parameter_labels))
    # history rows
    H=r.parameter_history.to_dataframe()
    for lab in ("k.r1","k.r2"):
        q=p.get(lab); col=H[lab].values; col=np.exp(col) if q.non_negative else col
        if (col<q.minimum*(1-1e-9)).any() or (col>q.maximum*(1+1e-9)).any(): viol.append((trial,method,lab,"history out of bounds"))
    # jacobian ordering via own finite differences
    opt=OPT.Optimizer(Scheme(model,r.optimized_parameters,{"d":ds},optimization_method=method),verbose=False)
    labs,x0,lb,ub=r.optimized_parameters.get_label_value_and_bounds_arrays(exclude_non_vary=True)
    opt._free_parameter_labels=labs
    J=np.zeros_like(r.jacobian)
    for j in range(len(labs)):
        h=1e-6*max(1,abs(x0[j])); xp=x0.copy(); xm=x0.copy(); xp[j]+=h; xm[j]-=h
        J[:,j]=(opt.objective_function(xp)-opt.objective_function(xm))/(2*h)
    rel=np.abs(J-r.jacobian).max()/np.abs(J).max()
    if rel>1e-3: viol.append((trial,method,"jac mismatch",rel, labs, r.free_parameter_labels))
print("fits",nfit,"evaluations observed",nev,"violations",len(viol)); print(viol[:8])
# transformation round trip
bad=0
for _ in range(5000):
    v=float(10**rng.uniform(-12,12)); nn=bool(rng.integers(2)); 
    if rng.integers(10)==0: v=1.0
    q=Parameters.from_list([["a",v,{"non-negative":nn}]])
    l,x,lo,hi=q.get_label_value_and_bounds_arrays(exclude_non_vary=True); q.set_from_label_and_value_arrays(l,x)
    if abs(q.get("a").value-v)>1e-9*abs(v): bad+=1
print("round trip bad",bad)
