# C19: quick registry model vs real, exhaustive small histories
import warnings, itertools
from glotaran.plugin_system.base_registry import add_plugin_to_registry, add_instantiated_plugin_to_registry, set_plugin, get_plugin_from_registry, full_plugin_name, PluginOverwriteWarning, registered_plugins
class A: 
    def __init__(self, fmt=None): self.format=fmt
class B:
    def __init__(self, fmt=None): self.format=fmt
class C(A): pass
CLS=[A,B,C]; NAMES=["x","y"]
def fn(c): return f"{c.__module__}.{c.__name__}"
ops=[]
for n in NAMES:
    for c in CLS: ops.append(("reg",n,c))
    for c in CLS: ops.append(("set",n,c))
ops.append(("regmulti",("x","y"),A))
def model_apply(state, op):
    # state: dict name->class (instantiated: compare class+format) ; returns (warned, error)
    kind=op[0]
    if kind=="reg":
        _,n,c=op; warned=False
        if n in state["short"]:
            if state["short"][n][0] is not c: warned=True
        else: state["short"][n]=(c,n)
        state["full"][f"{fn(c)}_{n}"]=(c,n)
        if n in state["short"] and state["short"][n][0] is not c or (n in state["short"] and state["short"][n]!=(c,n)): pass
        return warned,None
    if kind=="regmulti":
        w=False
        for n in op[1]:
            ww,_=model_apply(state,("reg",n,op[2])); w=w or ww
        return w,None
    if kind=="set":
        _,n,c=op
        # set x to full name of c registered for format n? use key fn(c)_n if exists else error
        key=f"{fn(c)}_{n}"
        if key not in state["full"]: return False,"ValueError"
        state["short"][n]=state["full"][key]; return False,None
def real_apply(reg, op):
    kind=op[0]
    with warnings.catch_warnings(record=True) as w:
        warnings.simplefilter("always")
        try:
            if kind=="reg": add_instantiated_plugin_to_registry(op[1], op[2], reg, "set_x")
            elif kind=="regmulti": add_instantiated_plugin_to_registry(list(op[1]), op[2], reg, "set_x")
            elif kind=="set": set_plugin(op[1], f"{fn(op[2])}_{op[1]}", reg)
            err=None
        except ValueError: err="ValueError"
    return any(issubclass(x.category, PluginOverwriteWarning) for x in w), err
n=0; bad=[]
for L in range(1,5):
    for hist in itertools.product(ops, repeat=L):
        reg={}; st={"short":{}, "full":{}}
        for op in hist:
            mw,me=model_apply(st,op); rw,re_=real_apply(reg,op)
            ok = (mw==rw) and (me==re_)
            for nme,(c,f) in st["short"].items():
                ok = ok and nme in reg and type(reg[nme]) is c and reg[nme].format==f
            for key,(c,f) in st["full"].items():
                ok = ok and key in reg and type(reg[key]) is c and reg[key].format==f
            ok = ok and set(registered_plugins(reg))==set(st["short"])
            n+=1
            if not ok: bad.append((hist,op,mw,rw,me,re_)); break
print("ops checked",n,"mismatches",len(bad)); print(bad[:3])
