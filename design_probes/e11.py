from common import *
import tempfile, os, traceback
from glotaran.io import save_dataset, load_dataset
d = tempfile.mkdtemp()
da = xr.DataArray(np.arange(6.).reshape(3,2), coords=[("time",[0.,1,2]),("spectral",[500.,600])])
f=os.path.join(d,"a.ascii"); save_dataset(da,f); print(open(f).read())
try: load_dataset(f)
except Exception: traceback.print_exc()
