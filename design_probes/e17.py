import os, sys, hashlib
from e13 import *
import numba
model,p,data = build(False,[[1,2,3,4.],[0.,1,2.5,3,5]],True,True,True,True,False,False,True)
data = {l: d.interp(time=np.linspace(0,10,2000)) for l,d in data.items()}
scheme = Scheme(model,p,data)
opt = Optimizer(scheme, verbose=False); opt._free_parameter_labels, x0,_,_ = p.get_label_value_and_bounds_arrays(exclude_non_vary=True)
hs=set()
for i in range(30):
    v = opt.objective_function(x0*(1+0.01*(i%3)))
    if i%3==0: hs.add(hashlib.sha1(v.tobytes()).hexdigest())
try: tl = numba.threading_layer()
except Exception as e: tl = "uninit"
print(numba.config.NUMBA_NUM_THREADS, tl, "distinct hashes over 10 repeats:", len(hs), sorted(hs)[0][:12])
