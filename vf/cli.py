import argparse
import os
import sys

from vf.core import run_property


def main():
    ap = argparse.ArgumentParser()
    ap.add_argument("prop")
    ap.add_argument("--tier", default=os.environ.get("VERIF_TIER", "quick"), choices=["quick", "thorough"])
    ap.add_argument("--seed", type=int, default=int(os.environ.get("VERIF_SEED", "0")))
    ap.add_argument("--replay")
    a = ap.parse_args()
    sys.exit(run_property(a.prop.upper(), a.tier, a.seed, a.replay))


if __name__ == "__main__":
    main()
