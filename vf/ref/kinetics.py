"""Oracle for compartmental kinetics (C04): c(t) = expm(K t) j.

K is assembled from the specification as documented: an entry (to, from): k with to != from is a
transfer from -> to (K[to, from] += k, K[from, from] -= k); an entry (s, s): k is a loss channel
(K[s, s] -= k); several K-matrices of one megacomplex are merged entry-wise, later ones overriding.
j is normalised to sum 1 over the compartments not listed in exclude_from_normalize.
"""
import numpy as np
from scipy.linalg import expm


def assemble(compartments, entries):
    """entries: list of ((to, from), rate) AFTER merging (dict semantics: later overrides)."""
    n = len(compartments)
    K = np.zeros((n, n))
    merged = {}
    for (to, fr), k in entries:
        merged[(to, fr)] = k
    for (to, fr), k in merged.items():
        i, j = compartments.index(to), compartments.index(fr)
        if i == j:
            K[i, i] -= k
        else:
            K[i, j] += k
            K[j, j] -= k
    return K


def normalise(j, compartments, exclude):
    j = np.asarray(j, dtype=float).copy()
    idx = np.array([c not in exclude for c in compartments])
    j[idx] = j[idx] / j[idx].sum()
    return j


def concentrations(K, j, times):
    """float64 reference, one expm per time point."""
    return np.array([expm(K * t) @ j for t in times])


def concentrations_mp(K, j, times, dps=30):
    import mpmath as mp

    mp.mp.dps = dps
    Km = mp.matrix(K.tolist())
    jm = mp.matrix([[mp.mpf(float(v))] for v in j])
    out = np.zeros((len(times), len(j)))
    for a, t in enumerate(times):
        c = mp.expm(Km * mp.mpf(float(t))) * jm
        out[a] = [float(c[i]) for i in range(len(j))]
    return out


def spectrum_ok(K, rel_gap=1e-3):
    """real, distinct eigenvalues (relative gap) - the property's precondition."""
    ev = np.linalg.eigvals(K)
    if np.abs(ev.imag).max() > 1e-12 * max(np.abs(ev).max(), 1e-300):
        return False, ev
    ev = np.sort(ev.real)
    scale = np.abs(ev).max()
    if scale == 0:
        return False, ev
    gaps = np.diff(ev)
    # distinct also at the resolution an eigen-decomposition in float64 has: two eigenvalues closer than ~1e4 eps |K|
    # (e.g. an absorbing compartment, eigenvalue 0, next to a 1e-12 rate) are one numerically
    absres = 1e4 * np.finfo(float).eps * float(np.abs(K).max())
    return bool(((gaps > rel_gap * np.maximum(np.abs(ev[1:]), np.abs(ev[:-1]))) & (gaps > absres)).all() if len(ev) > 1 else True), ev
