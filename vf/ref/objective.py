"""Independent evaluation of the separable least-squares objective from a scheme CASE description.

Nothing here calls pyglotaran.  Written from the statement of C02/C03/C08/C09/C13:
  per dataset group, in model order
    unlinked: per dataset, per global index: A = dataset_scale * sum_k mc_scale_k * M_k merged by
      label; relations (source column += p * target column, target dropped) then constraints
      (zero: dropped inside the interval, only: dropped outside); rows and data weighted; best
      linear fit (SVD lstsq / NNLS by support enumeration); residual.
    full model: kron(G, M), flattened weighted data, one fit.
    linked: alignment (vf.ref.align), stack the datasets assigned to the aligned point, union of
      labels, reduction with the aligned coordinate, weights (ones for unweighted members).
    then one entry weight * |sum_S clp_source - p * sum_T clp_target| per equal-area penalty
    (per dataset when unlinked, per group when linked) whose source and target areas are non-empty.
"""
from __future__ import annotations

import numpy as np

from vf.ref import align as AL
from vf.ref.lsq import nnls_enum


def fl(v):
    return float(v)


# ---------------------------------------------------------------- parameters
def parameter_values(case, free=None):
    """label -> real-space value, with `free` overriding values; expressions evaluated
    (dependency order) with the C12 evaluator."""
    from vf.ref import expr as X

    vals = {}
    for label, p in case["parameters"].items():
        if not p.get("expr"):
            vals[label] = fl((free or {}).get(label, p["value"]))
    pending = {l: p["expr"] for l, p in case["parameters"].items() if p.get("expr")}
    for _ in range(len(pending) + 1):
        for l, e in list(pending.items()):
            if X.refs_text(e) <= set(vals):
                vals[l] = float(X.eval_text(e, vals))
                del pending[l]
    return vals


def free_labels(case):
    return [l for l, p in case["parameters"].items() if p.get("vary", True) is not False and not p.get("expr")]


def to_optimizer_space(case, vals):
    x = []
    for l in free_labels(case):
        v = vals[l]
        x.append(np.log(v) if case["parameters"][l].get("non_negative") else v)
    return np.asarray(x, dtype=float)


# ---------------------------------------------------------------- matrices
def mc_matrix(m, pv, g, t):
    rates = np.asarray([pv[r] for r in m["rates"]])
    t = np.asarray(t, dtype=float)
    if not m.get("disp"):
        return np.exp(-np.outer(t, rates))
    g = np.asarray(g, dtype=float)
    return np.exp(-t[None, :, None] * rates[None, None, :] * (1.0 + pv[m["disp"]] * g[:, None, None]))


def gmc_matrix(m, pv, x):
    c = np.asarray([pv[r] for r in m["centers"]])
    x = np.asarray(x, dtype=float)
    return np.exp(-((x[:, None] - c[None, :]) ** 2) / (2.0 * pv[m["width"]] ** 2))


def dataset_matrix(case, ds, pv, with_dataset_scale=True):
    """-> (labels, M) with M of shape (n_global, n_model, n_labels): merged, megacomplex-scaled,
    dataset-scaled matrix at every global index."""
    labels = []
    for mname in ds["megacomplex"]:
        for l in case["megacomplexes"][mname]["labels"]:
            if l not in labels:
                labels.append(l)
    g, t = ds["g"], ds["t"]
    M = np.zeros((len(g), len(t), len(labels)))
    for k, mname in enumerate(ds["megacomplex"]):
        m = case["megacomplexes"][mname]
        mm = mc_matrix(m, pv, g, t)
        if mm.ndim == 2:
            mm = np.broadcast_to(mm, (len(g),) + mm.shape)
        s = pv[ds["mc_scale"][k]] if ds.get("mc_scale") else 1.0
        for j, l in enumerate(m["labels"]):
            M[:, :, labels.index(l)] += s * mm[:, :, j]
    if with_dataset_scale and ds.get("scale"):
        M = M * pv[ds["scale"]]
    return labels, M


def global_matrix(case, ds, pv):
    labels = []
    for mname in ds["global_megacomplex"]:
        for l in case["global_megacomplexes"][mname]["labels"]:
            if l not in labels:
                labels.append(l)
    G = np.zeros((len(ds["g"]), len(labels)))
    for mname in ds["global_megacomplex"]:
        m = case["global_megacomplexes"][mname]
        mm = gmc_matrix(m, pv, ds["g"])
        for j, l in enumerate(m["labels"]):
            G[:, labels.index(l)] += mm[:, j]
    return labels, G


# ---------------------------------------------------------------- intervals
def ivlist(iv):
    if iv is None:
        return None
    if len(iv) == 2 and not isinstance(iv[0], (list, tuple)):
        return [(fl(iv[0]), fl(iv[1]))]
    return [(fl(a), fl(b)) for a, b in iv]


def inside(iv, x):
    """Closed-interval membership; None = everywhere."""
    ivs = ivlist(iv)
    if ivs is None:
        return True
    return any(min(a, b) <= x <= max(a, b) for a, b in ivs)


def weight_array(case, ds, data_weight):
    """Weight actually in force for a dataset: the dataset's own weight if present, else the
    product of the model weights naming it (value on [interval] x [interval], 1 elsewhere)."""
    if data_weight is not None:
        return data_weight
    ws = [w for w in case.get("weights", []) if ds["label"] in w["datasets"]]
    if not ws:
        return None
    t, g = np.asarray(ds["t"], dtype=float), np.asarray(ds["g"], dtype=float)
    W = np.ones((len(t), len(g)))
    for w in ws:
        mt = np.array([inside(w.get("model_interval"), v) for v in t])
        mg = np.array([inside(w.get("global_interval"), v) for v in g])
        W[np.outer(mt, mg)] *= w["value"]
    return W


# ---------------------------------------------------------------- reduction and solve
def reduce(case, pv, labels, A, x):
    """relations then constraints at global coordinate x.  -> (reduced labels, reduced A, expand)
    where expand(reduced_clps) gives the full clp vector in `labels` order."""
    labels = list(labels)
    T = np.eye(len(labels))
    rel_applied = []
    for r in case.get("relations", []):
        if r["target"] in labels and r["source"] in labels and inside(r.get("interval"), x):
            T[labels.index(r["target"]), labels.index(r["source"])] = pv[r["parameter"]]
            rel_applied.append((labels.index(r["target"]), labels.index(r["source"]), pv[r["parameter"]]))
    drop = {t for t, _, _ in rel_applied}
    keep = [i for i in range(len(labels)) if i not in drop]
    A1 = A @ T[:, keep]
    l1 = [labels[i] for i in keep]
    removed = set()
    for c in case.get("constraints", []):
        if c["target"] in l1:
            app = inside(c.get("interval"), x)
            if (c["type"] == "zero" and app) or (c["type"] == "only" and not app):
                removed.add(c["target"])
    keep2 = [i for i, l in enumerate(l1) if l not in removed]
    A2 = A1[:, keep2]
    l2 = [l1[i] for i in keep2]

    def expand(c):
        full = np.zeros(len(labels))
        for l, v in zip(l2, c):
            full[labels.index(l)] = v
        for t, s, p in rel_applied:
            full[t] = p * full[s]
        return full

    return l2, A2, expand


NNLS_SOLVER = ["enum"]


def solve(A, y, nnls):
    if A.shape[1] == 0:
        return np.zeros(0), y.copy()
    if not (np.isfinite(A).all() and np.isfinite(y).all()) or np.abs(A).max() > 1e150:
        # LAPACK's dgelsd/dbdsqr can loop forever on NaN / overflowing input (uninterruptible): refuse instead
        raise ValueError("non-finite or overflowing reference matrix (oracle not applicable)")
    if nnls and NNLS_SOLVER[0] == "scipy":
        from scipy.optimize import nnls as scipy_nnls

        c, _ = scipy_nnls(A, y)
    elif nnls:
        _, c, _ = nnls_enum(A, y)
    else:
        c = np.linalg.lstsq(A, y, rcond=None)[0]
    return c, y - A @ c


def note_solve(out, A, y):
    """Conditioning and scale of one linear solve: 'kappa' and 'huge' (F13 regime clauses, see c01.f13_predicate)."""
    out["kappa"] = max(out["kappa"], kappa(A))
    if A.shape[1]:
        with np.errstate(all="ignore"):
            g = np.max(np.abs(A.T @ y)) if y.size else 0.0
        if not np.isfinite(g) or g > 10.0 * max(A.shape):
            out["huge"] = True
        if out.get("nnls"):
            from vf.ref.lsq import f13_regime

            try:
                if any(f13_regime(A, y).values()):
                    out["f13"] = True
            except Exception:  # noqa
                out["f13"] = True


def kappa(A):
    if A.shape[1] == 0:
        return 1.0
    sv = np.linalg.svd(A, compute_uv=False)
    return float(sv[0] / sv[-1]) if sv[-1] > 0 else float("inf")


# ---------------------------------------------------------------- linking decision
def group_datasets(case, g):
    return [d for d in case["datasets"] if d["group"] == g]


def linkable(case, g):
    """Whether an automatic (link_clp: null) group MAY be linked: never with a full-model dataset."""
    return not any(d.get("global_megacomplex") for d in group_datasets(case, g))


# ---------------------------------------------------------------- evaluation
def evaluate_group(case, g, pv, data, linked):
    """-> dict(residuals={(label, gi): weighted residual vector (model order)}, clps={(label, gi): full clp},
    clp_labels={label: [...]}, penalties=[...], n_clps=int, kappa=max condition number, weights={label: W or None})"""
    gd = case["groups"][g]
    nnls = gd["residual_function"] == "non_negative_least_squares"
    dss = group_datasets(case, g)
    out = {"residuals": {}, "clps": {}, "clp_labels": {}, "penalties": [], "n_clps": 0, "kappa": 1.0, "weights": {},
           "full": {}, "linked": linked, "aligned": None, "nnls": nnls, "huge": False, "f13": False}
    mats = {}
    for ds in dss:
        D, Wd = data[ds["label"]]
        out["weights"][ds["label"]] = weight_array(case, ds, Wd)
        if not ds.get("global_megacomplex"):
            mats[ds["label"]] = dataset_matrix(case, ds, pv)
            out["clp_labels"][ds["label"]] = mats[ds["label"]][0]

    def area_penalties(entries):
        """entries: list of (x, labels, fullclp) along one axis."""
        pens = []
        for p in case.get("penalties", []):
            src = [c[ls.index(p["source"])] for x, ls, c in entries if p["source"] in ls and inside(p["source_intervals"], x)]
            tgt = [c[ls.index(p["target"])] for x, ls, c in entries if p["target"] in ls and inside(p["target_intervals"], x)]
            if src and tgt:
                pens.append(p["weight"] * abs(sum(src) - pv[p["parameter"]] * sum(tgt)))
        return pens

    if not linked:
        for ds in dss:
            label = ds["label"]
            D, _ = data[label]
            W = out["weights"][label]
            if ds.get("global_megacomplex"):
                ml, M = dataset_matrix(case, ds, pv, with_dataset_scale=False)
                gl, G = global_matrix(case, ds, pv)
                ng, nt = len(ds["g"]), len(ds["t"])
                F = np.zeros((ng * nt, len(gl) * len(ml)))
                for i in range(ng):
                    F[i * nt:(i + 1) * nt, :] = np.kron(G[i, :], M[i])
                y = D.T.reshape(-1).copy()
                if W is not None:
                    w = W.T.reshape(-1)
                    F, y = F * w[:, None], y * w
                c, r = solve(F, y, nnls)
                note_solve(out, F, y)
                out["full"][label] = {"clp": c.reshape(len(gl), len(ml)), "global_labels": gl, "labels": ml,
                                      "residual": r.reshape(ng, nt).T, "M": M, "G": G}
                for i in range(ng):
                    out["residuals"][(label, i)] = r[i * nt:(i + 1) * nt]
                out["n_clps"] += len(gl) * len(ml)
                continue
            labels, M = mats[label]
            entries = []
            for i, x in enumerate(ds["g"]):
                rl, A, expand = reduce(case, pv, labels, M[i], x)
                y = D[:, i].copy()
                if W is not None:
                    A, y = A * W[:, i][:, None], y * W[:, i]
                c, r = solve(A, y, nnls)
                note_solve(out, A, y)
                out["residuals"][(label, i)] = r
                full = expand(c)
                out["clps"][(label, i)] = full
                out["n_clps"] += len(rl)
                entries.append((x, labels, full))
            out["penalties"] += area_penalties(entries)
        return out
    # linked
    axes = [ds["g"] for ds in dss]
    aligned, assign = AL.align_unique(axes, case.get("link_tolerance", 0.0), case.get("link_method", "nearest"))
    out["aligned"] = (aligned, assign)
    anyw = any(out["weights"][ds["label"]] is not None for ds in dss)
    entries = []
    for x in aligned:
        present = [(ds, assign[k].index(x)) for k, ds in enumerate(dss) if x in assign[k]]
        full_labels = []
        for ds, _ in present:
            for l in mats[ds["label"]][0]:
                if l not in full_labels:
                    full_labels.append(l)
        blocks, ys, ws = [], [], []
        for ds, i in present:
            ls, M = mats[ds["label"]]
            B = np.zeros((len(ds["t"]), len(full_labels)))
            for j, l in enumerate(ls):
                B[:, full_labels.index(l)] = M[i][:, j]
            blocks.append(B)
            D, _ = data[ds["label"]]
            W = out["weights"][ds["label"]]
            ys.append(D[:, i].copy())
            ws.append(W[:, i] if W is not None else np.ones(len(ds["t"])))
        A, y, w = np.vstack(blocks), np.concatenate(ys), np.concatenate(ws)
        rl, A, expand = reduce(case, pv, full_labels, A, x)
        if anyw and any(out["weights"][ds["label"]] is not None for ds, _ in present):
            A, y = A * w[:, None], y * w
        elif anyw:
            pass
        c, r = solve(A, y, nnls)
        note_solve(out, A, y)
        full = expand(c)
        out["n_clps"] += len(rl)
        start = 0
        for ds, i in present:
            n = len(ds["t"])
            out["residuals"][(ds["label"], i)] = r[start:start + n]
            ls = mats[ds["label"]][0]
            out["clps"][(ds["label"], i)] = np.array([full[full_labels.index(l)] for l in ls])
            start += n
        entries.append((x, full_labels, full))
    out["penalties"] += area_penalties(entries)
    return out


def evaluate(case, pv, data, link_choice=None):
    """-> {group: evaluate_group(...)}; link_choice: {group: bool} for automatic groups."""
    res = {}
    for g, gd in case["groups"].items():
        if not group_datasets(case, g):
            continue
        linked = gd["link_clp"]
        if linked is None:
            linked = (link_choice or {}).get(g, False)
        res[g] = evaluate_group(case, g, pv, data, bool(linked))
    return res


def penalty_vector(res_group):
    """All entries of one group's penalty vector (residual entries + penalties), unordered."""
    parts = [v for v in res_group["residuals"].values()]
    return np.concatenate(parts + [np.asarray(res_group["penalties"], dtype=float)])
