"""Independent evaluator for parameter expressions (C12 oracle).

Expressions are generated as trees; the tree gives (a) the text handed to pyglotaran and (b) the
value, computed here with plain Python float arithmetic and numpy elementary functions (trusted
base) on the CURRENT values of the referenced parameters.  For expression strings that did not
come from a tree (in-situ runs) `eval_text` substitutes `$label` itself and uses Python eval.
"""
import math
import re

import numpy as np

FUNCS = {"exp": np.exp, "log": np.log, "sqrt": np.sqrt, "sin": np.sin, "cos": np.cos, "abs": abs}
REF = re.compile(r"\$([A-Za-z0-9_]+(?:\.[A-Za-z0-9_]+)*)")


def to_text(t):
    k = t[0]
    if k == "ref":
        return f"${t[1]}"
    if k == "const":
        return repr(t[1])
    if k == "bin":
        return f"({to_text(t[2])} {t[1]} {to_text(t[3])})"
    if k == "fn":
        return f"{t[1]}({to_text(t[2])})"
    raise ValueError(k)


def refs(t):
    k = t[0]
    if k == "ref":
        return {t[1]}
    if k == "const":
        return set()
    if k == "bin":
        return refs(t[2]) | refs(t[3])
    return refs(t[2])


def evaluate(t, values):
    k = t[0]
    if k == "ref":
        return values[t[1]]
    if k == "const":
        return t[1]
    if k == "bin":
        a, b = evaluate(t[2], values), evaluate(t[3], values)
        return a + b if t[1] == "+" else a - b if t[1] == "-" else a * b if t[1] == "*" else a / b
    return FUNCS[t[1]](evaluate(t[2], values))


def refs_text(text):
    return set(REF.findall(text))


def eval_text(text, values):
    src = REF.sub(lambda m: f"__v[{m.group(1)!r}]", text)
    return eval(src, {"__builtins__": {}}, dict(FUNCS, __v=values, pi=math.pi))  # noqa: S307


def close(a, b, scale=0.0):
    if a != a and b != b:
        return True
    if a == b:
        return True
    if a != a or b != b:
        return False
    return abs(a - b) <= 1e-12 * max(abs(a), abs(b), scale)
