"""Sequential model of CLP-link alignment, written from the statement of C09.

Datasets are processed in order.  A global-axis point v of a later dataset is assigned to itself
unless an already aligned point u with |u - v| <= tolerance exists on the permitted side
(nearest: any, forward: u >= v, backward: u <= v); then to the nearest such u.  Equidistant
candidates admit either choice, so the model returns the SET of admissible alignments.
Two points of one dataset on one target => the alignment is ambiguous (AlignDatasetError).
"""
from __future__ import annotations

import itertools


class Ambiguous(Exception):
    pass


def candidates(v, target, tol, method):
    c = []
    for u in target:
        d = u - v
        if method == "forward" and d < 0:
            continue
        if method == "backward" and d > 0:
            continue
        if abs(d) <= tol:
            c.append(u)
    if not c:
        return [v]
    best = min(abs(u - v) for u in c)
    return [u for u in c if abs(u - v) == best]


def alignments(axes, tol, method, limit=64):
    """-> list of admissible outcomes; each outcome is either the string 'ambiguous' or a tuple
    (aligned_axis: list[float], assign: list[list[float]]) with assign[d][i] the aligned value of
    point i of dataset d."""
    outcomes = []

    def rec(d, target, assign):
        if len(outcomes) >= limit:
            return
        if d == len(axes):
            outcomes.append((sorted(target), [list(a) for a in assign]))
            return
        ax = list(axes[d])
        if d == 0:
            rec(1, set(ax), [ax])
            return
        opts = [candidates(v, sorted(target), tol, method) for v in ax]
        for choice in itertools.product(*opts):
            if len(set(choice)) != len(choice):
                if "ambiguous" not in outcomes:
                    outcomes.append("ambiguous")
                continue
            rec(d + 1, set(target) | set(choice), assign + [list(choice)])

    rec(0, set(), [])
    return outcomes


def align_unique(axes, tol, method):
    """Alignment when the outcome is unique; raises Ambiguous / ValueError otherwise."""
    outs = alignments(axes, tol, method)
    if outs == ["ambiguous"]:
        raise Ambiguous()
    if len(outs) != 1:
        raise ValueError(f"{len(outs)} admissible alignments")
    return outs[0]
