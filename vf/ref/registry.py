"""Abstract plugin registry written from the statement of C19 (not from the code).

short name -> first registered plugin, until a set re-points it; every plugin additionally
reachable under its full name (class path, + "_<format>" for instantiated io plugins).
A plugin is identified by (class, format) - format None for megacomplex classes.
"""


def fn(cls):
    return f"{cls.__module__}.{cls.__name__}"


class RegistryModel:
    def __init__(self, instantiated: bool):
        self.instantiated = instantiated
        self.short = {}
        self.full = {}

    def fullkey(self, cls, name):
        return f"{fn(cls)}_{name}" if self.instantiated else fn(cls)

    def register(self, names, cls):
        """-> (number of overwrite warnings expected, error or None)."""
        if isinstance(names, str):
            names = [names]
        warned = 0
        for name in names:
            if "." in name:
                return warned, "ValueError"
            ident = (cls, name if self.instantiated else None)
            if name in self.short:
                if fn(self.short[name][0]) != fn(cls):
                    warned += 1
            else:
                self.short[name] = ident
            self.full[self.fullkey(cls, name)] = ident
        return warned, None

    def set(self, name, fullkey):
        if "." in name:
            return "ValueError"
        if fullkey not in self.full:
            return "ValueError"
        self.short[name] = self.full[fullkey]
        return None

    def lookup(self, key):
        if key in self.short:
            return self.short[key]
        if key in self.full:
            return self.full[key]
        return "ValueError"

    def known_short(self):
        return sorted(self.short)

    def known_all(self):
        return sorted(set(self.short) | set(self.full))
