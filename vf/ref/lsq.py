"""Independent linear least-squares oracles (trusted base: numpy SVD/lstsq)."""
import itertools

import numpy as np


def _finite(A, y):
    # LAPACK's dgelsd can loop forever (uninterruptibly) on NaN / overflowing input
    if not (np.isfinite(A).all() and np.isfinite(y).all()):
        raise ValueError("non-finite input to the least-squares oracle")


def lstsq_ref(A, y):
    _finite(A, y)
    x, _, rank, sv = np.linalg.lstsq(A, y, rcond=None)
    r = y - A @ x
    return x, r, rank, sv


def nnls_enum(A, y):
    """Global optimum of min |y - A x|, x >= 0 by exhaustive active-set enumeration (n <= 10).

    The problem is convex; its optimum is the unconstrained optimum on the support of the
    solution, hence the best feasible unconstrained sub-solution over all supports.
    """
    _finite(A, y)
    m, n = A.shape
    best = (float(np.linalg.norm(y)), np.zeros(n), ())
    for k in range(1, n + 1):
        for S in itertools.combinations(range(n), k):
            xs, *_ = np.linalg.lstsq(A[:, S], y, rcond=None)
            if (xs < 0).any():
                continue
            r = float(np.linalg.norm(y - A[:, S] @ xs))
            if r < best[0]:
                x = np.zeros(n)
                x[list(S)] = xs
                best = (r, x, S)
    return best
