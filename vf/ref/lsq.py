"""Independent linear least-squares oracles (trusted base: numpy SVD/lstsq)."""
import itertools

import numpy as np


def _finite(A, y):
    # LAPACK's dgelsd can loop forever (uninterruptibly) on NaN / overflowing input
    if not (np.isfinite(A).all() and np.isfinite(y).all()):
        raise ValueError("non-finite input to the least-squares oracle")


def lstsq_ref(A, y):
    _finite(A, y)
    x, _, rank, sv = np.linalg.lstsq(A, y, rcond=None)
    r = y - A @ x
    return x, r, rank, sv


def nnls_enum(A, y):
    """Global optimum of min |y - A x|, x >= 0 by exhaustive active-set enumeration (n <= 10).

    The problem is convex; its optimum is the unconstrained optimum on the support of the
    solution, hence the best feasible unconstrained sub-solution over all supports.
    """
    _finite(A, y)
    m, n = A.shape
    best = (float(np.linalg.norm(y)), np.zeros(n), ())
    for k in range(1, n + 1):
        for S in itertools.combinations(range(n), k):
            xs, *_ = np.linalg.lstsq(A[:, S], y, rcond=None)
            if (xs < 0).any():
                continue
            r = float(np.linalg.norm(y - A[:, S] @ xs))
            if r < best[0]:
                x = np.zeros(n)
                x[list(S)] = xs
                best = (r, x, S)
    return best


def f13_regime(A, y, kappa=None):
    """Regime in which scipy 1.14's NNLS (Lawson-Hanson on the normal equations A^T A with the absolute
    tolerance tol_abs = 10*max(m,n)*eps on gradient and coefficients) cannot be expected to return the optimum
    (known finding F13); clauses as in vf.props.c01.f13_predicate.  -> dict of clause -> bool."""
    from vf import tol as T

    A = np.asarray(A, dtype=float)
    y = np.asarray(y, dtype=float)
    m, n = A.shape
    if n == 0:
        return {"ill_conditioned": False, "abs_tolerance": False, "huge_scale": False}
    if kappa is None:
        sv = np.linalg.svd(A, compute_uv=False)
        kappa = float(sv[0] / sv[-1]) if sv[-1] > 0 else float("inf")
    mm = max(m, n)
    tol_abs = 10 * mm * T.EPS

    def nrm(v, axis=None):
        v = np.asarray(v, dtype=float)
        mx = np.max(np.abs(v), axis=axis, keepdims=axis is not None) if v.size else 0.0
        mx = np.where(mx > 0, mx, 1.0)
        out = np.linalg.norm(v / mx, axis=axis) * (np.squeeze(mx, axis=axis) if axis is not None else mx)
        return out if axis is not None else float(out)

    coln = nrm(A, axis=0)
    ny = nrm(y)
    tj = T.C * T.EPS * mm * coln * ny
    with np.errstate(all="ignore"):
        g = float(np.max(np.abs(A.T @ y))) if y.size else 0.0
    return {
        "ill_conditioned": bool(kappa * kappa >= T.C * mm),
        "abs_tolerance": bool(tol_abs > tj.min() or tol_abs >= 1e-3 * ny / max(coln.max(), 1e-300)),
        "huge_scale": bool(not np.isfinite(g) or T.EPS * max(g, float(coln.max()) * ny) > tol_abs),
    }
