"""Oracles for Gaussian-IRF convolutions (C05, C07).

conv(k, tau, s) = int_0^inf exp(-k u) N(tau - u; 0, s) du
                = 0.5 * exp(k^2 s^2 / 2 - k tau) * erfc((k s^2 - tau) / (s sqrt 2))
for real or complex k (rate, or damping + i * angular frequency), tau = t - centre.
Primary reference: mpmath at 40 digits on the exact binary inputs.  A float64 evaluation in the
cancellation-free erfcx / Faddeeva form is used as a fast pre-filter; the bulk of the points that
agree with it to a quarter of the tolerance are accepted, everything else (and a random sample that
guards the fast form itself) is arbitrated by mpmath.
"""
import math

import numpy as np
from scipy.special import erfc, erfcx, wofz

EPS = float(np.finfo(float).eps)
SQ2 = math.sqrt(2.0)


def conv_mp(k, tau, s, dps=40):
    import mpmath as mp

    mp.mp.dps = dps
    kk = mp.mpc(float(np.real(k)), float(np.imag(k)))
    t = mp.mpf(float(tau))
    ss = mp.mpf(float(s))
    v = mp.mpf("0.5") * mp.exp(kk * kk * ss * ss / 2 - kk * t) * mp.erfc((kk * ss * ss - t) / (ss * mp.sqrt(2)))
    return complex(v) if np.iscomplexobj(k) or np.imag(k) != 0 else float(mp.re(v))


def conv_fast(k, tau, s):
    """float64, vectorised over tau; real k via erfcx, complex k via the Faddeeva function
    (erfc(z) = exp(-z^2) w(i z)), each in the region where it is free of cancellation; NaN elsewhere."""
    tau = np.asarray(tau, dtype=float)
    z = (k * s * s - tau) / (s * SQ2)
    g = np.exp(-tau * tau / (2 * s * s))
    with np.errstate(all="ignore"):
        if np.imag(k) == 0 and not np.iscomplexobj(k):
            k = float(np.real(k))
            out = np.where(z > -5, 0.5 * g * erfcx(np.maximum(z, -6)), 0.5 * np.exp(k * k * s * s / 2 - k * tau) * erfc(z))
            return out
        stable = np.real(z) >= 0
        a = 0.5 * g * wofz(1j * z)
        b = 0.5 * np.exp(k * k * s * s / 2 - k * tau) * (2.0 - np.exp(-z * z) * wofz(-1j * z))
        return np.where(stable, a, np.where(np.real(z) < -3, b, np.nan))


def cond(k, tau, s):
    """Conditioning of the mathematical function w.r.t. one-ulp changes of its inputs."""
    return 1.0 + np.abs(k * tau) + (tau * tau) / (s * s) + np.abs(k) ** 2 * s * s


def tolerance(ref, k, tau, s, colmax):
    return 64 * EPS * cond(k, tau, s) * (np.abs(ref) + 1e-3 * colmax) + 1e-300


def judge_column(impl, k, tau, s_list, c_list, scale_list, rng=None, sample=0.02, factor=1.0):
    """impl[t] should equal factor * sum_g scale_g * conv(k, t_abs - c_g, s_g) where tau is the absolute time
    axis.  -> (max slack, index of worst point, reference value there, n_mpmath)."""
    t = np.asarray(tau, dtype=float)
    fast = np.zeros(t.shape, dtype=complex if np.iscomplexobj(impl) else float)
    cnd = np.ones(t.shape)
    for c, s, sc in zip(c_list, s_list, scale_list):
        fast = fast + factor * sc * conv_fast(k, t - c, s)
        cnd = np.maximum(cnd, cond(k, t - c, s))
    colmax = float(np.nanmax(np.abs(fast))) if np.isfinite(fast).any() else 0.0
    tol = 64 * EPS * cnd * (np.abs(np.nan_to_num(fast)) + 1e-3 * colmax) * max(abs(factor), 1.0) + 1e-300
    dev = np.abs(impl - fast)
    need = ~np.isfinite(fast) | (dev > tol / 4)
    if rng is not None:
        need |= rng.random(t.shape) < sample
    nmp = 0
    worst, wi, wref = 0.0, -1, None
    ref = np.array(fast, copy=True)
    for i in np.flatnonzero(need):
        v = 0
        for c, s, sc in zip(c_list, s_list, scale_list):
            v = v + factor * sc * conv_mp(k, t[i] - c, s)
        ref[i] = v
        nmp += 1
    colmax = float(np.max(np.abs(ref))) if len(ref) else 0.0
    tol = 64 * EPS * cnd * (np.abs(ref) + 1e-3 * colmax) + 1e-300
    sl = np.abs(impl - ref) / tol
    sl = np.where(np.isnan(sl), np.inf, sl)  # a NaN in the implementation's column is never 'within tolerance'
    wi = int(np.argmax(sl))
    return float(sl[wi]), wi, ref[wi], nmp
