"""Interval semantics of C08, as sets of admissible outcomes.

For an item restricted to an interval [lo, hi] on a strictly increasing axis a:
  Inside  = {i : min(lo,hi) <= a_i <= max(lo,hi)}          must be affected
  Nearest = [argmin|a - min| .. argmin|a - max|]             may be affected (no point beyond the
            axis point nearest to a bound); an infinite bound reaches the first / last point.
Lists of intervals are unions; no interval = everything.
"""
import math

import numpy as np


def norm(iv):
    """-> list of (lo, hi) with lo <= hi, or None."""
    if iv is None:
        return None
    if len(iv) == 2 and not isinstance(iv[0], (list, tuple)):
        iv = [iv]
    out = []
    for a, b in iv:
        a, b = float(a), float(b)
        out.append((min(a, b), max(a, b)))
    return out


def inside_set(axis, iv):
    axis = np.asarray(axis, dtype=float)
    ivs = norm(iv)
    if ivs is None:
        return set(range(len(axis)))
    return {i for i, v in enumerate(axis) if any(lo <= v <= hi for lo, hi in ivs)}


def nearest_set(axis, iv):
    axis = np.asarray(axis, dtype=float)
    ivs = norm(iv)
    if ivs is None:
        return set(range(len(axis)))
    out = set()
    for lo, hi in ivs:
        # all points at minimal distance count as 'nearest' (ties admit either)
        i0 = 0 if math.isinf(lo) and lo < 0 else int(np.flatnonzero(np.abs(axis - lo) == np.abs(axis - lo).min())[0]) if not math.isinf(lo) else len(axis) - 1
        if math.isinf(hi) and hi > 0:
            i1 = len(axis) - 1
        elif math.isinf(hi):
            i1 = 0
        else:
            i1 = int(np.flatnonzero(np.abs(axis - hi) == np.abs(axis - hi).min())[-1])
        out |= set(range(min(i0, i1), max(i0, i1) + 1))
    return out


def unambiguous(axis, iv):
    return inside_set(axis, iv) == nearest_set(axis, iv)
