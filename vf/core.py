"""Core plumbing: shard execution in fresh processes, recorder, verdicts, evidence.

A property driver (vf/props/cXX.py) provides

    LEVEL            "exploration" | "fault_enumeration"
    RULE             text: how cases are generated, what is non-trivial / distinct
    ASSUMPTIONS      list[str]
    MIN_NONTRIVIAL   {"quick": n, "thorough": n}   fewer => inconclusive
    DECIDING         list of counter names that must be > 0 (deciding monitors)
    plan(tier, seed) -> list[dict]      JSON-serialisable shard specs
    run_shard(spec, rec)                executed in a fresh process
    replay(case, rec)                   optional, re-run one recorded case

Exit codes: 0 held (after KNOWN-FINDING lines), 1 violation, 2 inconclusive.
"""
from __future__ import annotations

import hashlib
import importlib
import json
import os
import shutil
import subprocess
import sys
import tempfile
import time
import traceback
from collections import Counter
from concurrent.futures import ThreadPoolExecutor

ROOT = os.path.dirname(os.path.dirname(os.path.abspath(__file__)))
PY = "/venv/bin/python"
NCPU = os.cpu_count() or 4


def jsonable(o):
    """Best-effort conversion of case descriptions / observations to JSON."""
    import numpy as np

    if isinstance(o, dict):
        return {str(k): jsonable(v) for k, v in o.items()}
    if isinstance(o, (list, tuple, set, frozenset)):
        return [jsonable(v) for v in o]
    if isinstance(o, np.ndarray):
        if o.size > 64:
            return {"ndarray": list(o.shape), "head": jsonable(o.ravel()[:8].tolist())}
        return jsonable(o.tolist())
    if isinstance(o, (np.floating,)):
        return jsonable(float(o))
    if isinstance(o, (np.integer,)):
        return int(o)
    if isinstance(o, (np.bool_,)):
        return bool(o)
    if isinstance(o, float):
        if o != o:
            return "nan"
        if o in (float("inf"), float("-inf")):
            return "inf" if o > 0 else "-inf"
        return o
    if isinstance(o, complex):
        return [o.real, o.imag]
    if isinstance(o, (str, int, bool)) or o is None:
        return o
    return repr(o)


class Rec:
    """Per-shard recorder.  Monitors never raise into the observed code; they record here."""

    def __init__(self, prop: str, spec: dict):
        self.prop = prop
        self.spec = spec
        self.evaluations = 0
        self.sigs: set[str] = set()
        self.samples: list = []
        self.counters: Counter = Counter()
        self.features: Counter = Counter()
        self.slacks: dict[str, float] = {}
        self.violations: list[dict] = []
        self.skipped: Counter = Counter()
        self.notes: list[str] = []
        self.max_samples = 2
        self.strict = bool(os.environ.get("VF_REPLAY_STRICT"))

    def case(self, sig, nontrivial: bool, sample=None, features=()):
        self.evaluations += 1
        if nontrivial:
            self.sigs.add(str(sig))
        for f in features:
            self.features[str(f)] += 1
        if sample is not None and len(self.samples) < self.max_samples:
            self.samples.append(jsonable(sample))

    def count(self, name, n=1):
        self.counters[name] += n

    def skip(self, reason, n=1):
        self.skipped[reason] += n

    def slack(self, name, value):
        value = float(value)
        if value != value:
            value = float("inf")
        if value > self.slacks.get(name, -1.0):
            self.slacks[name] = value

    def note(self, text):
        if len(self.notes) < 20:
            self.notes.append(str(text))

    def violation(self, mech: str, case, detail: str, finding: str | None = None):
        """mech: mechanism signature (dedupe key); finding: id of the known finding whose
        predicate AND bug model this observation matches (decided by the oracle), else None."""
        self.counters["violations_raw"] += 1
        for v in self.violations:
            if v["mech"] == mech and v["finding"] == finding:
                v["n"] += 1
                return
        if len(self.violations) < 200:
            self.violations.append(
                {"mech": mech, "finding": finding, "case": jsonable(case), "detail": str(detail)[:2000], "n": 1}
            )
        if self.strict:
            raise AssertionError(f"{self.prop} violation {mech}: {detail}")

    def dump(self, path):
        out = {
            "evaluations": self.evaluations,
            "sigs": sorted(self.sigs),
            "samples": self.samples,
            "counters": dict(self.counters),
            "features": dict(self.features),
            "slacks": self.slacks,
            "violations": self.violations,
            "skipped": dict(self.skipped),
            "notes": self.notes,
        }
        with open(path, "w") as f:
            json.dump(out, f)


def child_env(extra=None):
    env = dict(os.environ)
    pp = [ROOT, os.path.join(ROOT, ".deps")]
    if env.get("VERIF_REPO"):
        pp.insert(0, env["VERIF_REPO"])
    env["PYTHONPATH"] = os.pathsep.join(pp)
    env["PYTHONHASHSEED"] = "0"
    env["PYTHONDONTWRITEBYTECODE"] = "1"
    env["GLOTARAN_VERIF"] = "1"
    env.setdefault("NUMBA_NUM_THREADS", "2")
    env.setdefault("OMP_NUM_THREADS", "1")
    env.setdefault("OPENBLAS_NUM_THREADS", "1")
    env.setdefault("MKL_NUM_THREADS", "1")
    env["PYTHONWARNINGS"] = "ignore"
    if extra:
        env.update({k: str(v) for k, v in extra.items()})
    return env


def ensure_setup():
    if not os.path.exists(os.path.join(ROOT, ".deps", ".ok")):
        subprocess.run(["bash", os.path.join(ROOT, "setup.sh")], check=True, stdout=subprocess.DEVNULL)


def _run_one(prop, idx, spec, workdir, timeout):
    specfile = os.path.join(workdir, f"spec{idx}.json")
    outfile = os.path.join(workdir, f"out{idx}.json")
    with open(specfile, "w") as f:
        json.dump(spec, f)
    env = child_env(spec.get("env"))
    env["NUMBA_CACHE_DIR"] = os.path.join(workdir, f"nb{idx}")
    env["VF_SCRATCH"] = os.path.join(workdir, f"scratch{idx}")
    os.makedirs(env["VF_SCRATCH"], exist_ok=True)
    t0 = time.time()
    try:
        p = subprocess.run(
            [PY, "-m", "vf.shard", prop, specfile, outfile],
            env=env,
            cwd=env["VF_SCRATCH"],
            capture_output=True,
            text=True,
            timeout=timeout,
        )
        rc, err = p.returncode, (p.stderr or "")[-3000:] + (p.stdout or "")[-1000:]
    except subprocess.TimeoutExpired:
        rc, err = -9, f"watchdog: shard {idx} exceeded {timeout}s"
    res = None
    if os.path.exists(outfile):
        try:
            with open(outfile) as f:
                res = json.load(f)
        except Exception as e:  # noqa
            err += f"\nunreadable shard output: {e}"
    return {"idx": idx, "rc": rc, "err": err, "res": res, "wall": time.time() - t0}


def run_property(prop: str, tier: str, seed: int, replay: str | None = None) -> int:
    ensure_setup()
    t0 = time.time()
    mod = importlib.import_module(f"vf.props.{prop.lower()}")
    if replay:
        with open(replay) as f:
            case = json.load(f)
        if isinstance(case, dict) and "case" in case and "mech" in case:
            case = case["case"]
        specs = [{"replay": case, "seed": seed, "tier": tier}]
    else:
        specs = mod.plan(tier, seed)
        for s in specs:
            s.setdefault("seed", seed)
            s.setdefault("tier", tier)
    timeout = getattr(mod, "SHARD_TIMEOUT", {"quick": 600, "thorough": 5400})[tier]
    workdir = tempfile.mkdtemp(prefix=f"vf-{prop}-")
    try:
        nworkers = min(NCPU, len(specs), getattr(mod, "MAX_PARALLEL", NCPU))
        with ThreadPoolExecutor(nworkers) as ex:
            outs = list(ex.map(lambda a: _run_one(prop, a[0], a[1], workdir, timeout), enumerate(specs)))
    finally:
        shutil.rmtree(workdir, ignore_errors=True)
    return finish(prop, mod, tier, seed, specs, outs, time.time() - t0, replay)


def finish(prop, mod, tier, seed, specs, outs, wall, replay=None) -> int:
    from vf import findings

    evaluations = 0
    sigs: set[str] = set()
    samples: list = []
    counters: Counter = Counter()
    features: Counter = Counter()
    skipped: Counter = Counter()
    slacks: dict[str, float] = {}
    violations: list[dict] = []
    notes: list[str] = []
    inconclusive: list[str] = []
    for o in outs:
        r = o["res"]
        if o["rc"] != 0 or r is None:
            inconclusive.append(f"shard {o['idx']} rc={o['rc']}: {o['err'][-1500:]}")
        if r is None:
            continue
        evaluations += r["evaluations"]
        sigs.update(r["sigs"])
        for s in r["samples"]:
            if len(samples) < 5:
                samples.append(s)
        counters.update(r["counters"])
        features.update(r["features"])
        skipped.update(r["skipped"])
        notes.extend(r["notes"])
        for k, v in r["slacks"].items():
            slacks[k] = max(slacks.get(k, -1.0), v)
        for v in r["violations"]:
            for w in violations:
                if w["mech"] == v["mech"] and w["finding"] == v["finding"]:
                    w["n"] += v["n"]
                    break
            else:
                violations.append(v)

    if hasattr(mod, "post_verdict") and not replay:
        for v in mod.post_verdict(dict(counters), tier):
            violations.append({"mech": v["mech"], "finding": v.get("finding"), "case": v.get("case", {}), "detail": v["detail"], "n": 1})
    known = findings.load_open(prop)
    new, listed = [], []
    for v in violations:
        if v["finding"] is not None and v["finding"] in known:
            listed.append(v)
        else:
            new.append(v)

    if not replay:
        for name in getattr(mod, "DECIDING", []):
            if counters.get(name, 0) <= 0:
                inconclusive.append(f"deciding monitor '{name}' was evaluated 0 times")
        need = getattr(mod, "MIN_NONTRIVIAL", {"quick": 2, "thorough": 2})[tier]
        if len(sigs) < need:
            inconclusive.append(f"only {len(sigs)} distinct non-trivial cases (< {need})")

    os.makedirs(os.path.join(ROOT, "replays"), exist_ok=True)
    lines = []
    seen_f = set()
    for v in listed:
        if v["finding"] in seen_f:
            continue
        seen_f.add(v["finding"])
        lines.append(f"KNOWN-FINDING: property={prop} {v['finding']}: {known[v['finding']]['what']} (seen {v['n']}x)")
    for v in new:
        h = hashlib.sha256((prop + v["mech"]).encode()).hexdigest()[:10]
        path = os.path.join("replays", f"{prop}-{h}.json")
        with open(os.path.join(ROOT, path), "w") as f:
            json.dump({"property": prop, "mech": v["mech"], "detail": v["detail"], "case": v["case"], "n": v["n"]}, f, indent=1)
        lines.append(f"VIOLATION property={prop} replay={path}   # {v['mech']}: {v['detail'][:300]}")

    verdict = "violated" if new else ("inconclusive" if inconclusive else "held")
    if not replay:
        cov = {
            "evaluations": int(evaluations),
            "distinct_nontrivial": len(sigs),
            "rule": mod.RULE,
            "samples": samples if samples else [{"note": "no sample recorded"}],
            "exhaustive": bool(getattr(mod, "EXHAUSTIVE", {}).get(tier, False)),
            "monitor_counters": dict(sorted(counters.items())),
            "feature_histogram": dict(sorted(features.items(), key=lambda kv: -kv[1])[:80]),
            "max_slack": {k: float(f"{v:.4g}") for k, v in sorted(slacks.items())},
            "skipped": dict(skipped),
            "verdict": verdict,
            "shards": len(specs),
            "known_findings_seen": sorted(seen_f),
            "new_violations": [{"mech": v["mech"], "n": v["n"], "detail": v["detail"][:400]} for v in new][:20],
            "inconclusive_reasons": [i[:600] for i in inconclusive][:10],
            "notes": notes[:20],
        }
        ev = {
            "property_id": prop,
            "tier": tier,
            "seed": int(seed),
            "level": mod.LEVEL,
            "coverage": cov,
            "assumptions": list(getattr(mod, "ASSUMPTIONS", [])),
            "wall_s": round(wall, 2),
            "violations": len(new),
        }
        evdir = os.environ.get("VF_EVIDENCE_DIR") or os.path.join(ROOT, "evidence")
        os.makedirs(evdir, exist_ok=True)
        with open(os.path.join(evdir, f"{prop}.json"), "w") as f:
            json.dump(ev, f, indent=1, sort_keys=False)
            f.write("\n")

    for ln in lines:
        print(ln)
    print(
        f"[{prop}] tier={tier} seed={seed} verdict={verdict} evaluations={evaluations} "
        f"distinct_nontrivial={len(sigs)} wall={wall:.1f}s"
    )
    keys = [k for k in counters if not k.startswith("_")]
    print("  monitors: " + ", ".join(f"{k}={counters[k]}" for k in sorted(keys)[:40]))
    if slacks:
        print("  max slack: " + ", ".join(f"{k}={v:.3g}" for k, v in sorted(slacks.items())))
    if skipped:
        print("  skipped: " + ", ".join(f"{k}={v}" for k, v in sorted(skipped.items())))
    for i in inconclusive[:6]:
        print("  INCONCLUSIVE: " + i[:1500])
    if new:
        return 1
    if inconclusive:
        return 2
    return 0


def shard_main(argv):
    prop, specfile, outfile = argv
    with open(specfile) as f:
        spec = json.load(f)
    mod = importlib.import_module(f"vf.props.{prop.lower()}")
    rec = Rec(prop, spec)
    rc = 0
    import faulthandler

    # debugging aid only (VF_STACK_AFTER=<seconds>): dumping other threads' frames from the watchdog thread is racy
    # and has crashed long thorough shards (rc=-11 right after the "Timeout" header), so it is off by default
    if os.environ.get("VF_STACK_AFTER"):
        faulthandler.dump_traceback_later(float(os.environ["VF_STACK_AFTER"]), repeat=False, file=sys.stderr)
    try:
        if "replay" in spec:
            rec.strict = False
            mod.replay(spec["replay"], rec)
            for v in rec.violations:
                print("REPLAY VIOLATION", v["mech"], v["detail"], file=sys.stderr)
        else:
            mod.run_shard(spec, rec)
    except BaseException:  # noqa
        traceback.print_exc()
        rc = 3
    rec.dump(outfile)
    sys.stdout.flush()
    sys.stderr.flush()
    os._exit(rc)


class CaseTimeout(BaseException):
    """Raised inside the observed code by the per-case alarm (BaseException: not swallowed by
    'except Exception' of the code under observation)."""


class time_limit:
    """with time_limit(30): ...   raises CaseTimeout in the main thread after the given seconds."""

    def __init__(self, seconds):
        self.seconds = seconds

    def __enter__(self):
        import signal

        def handler(signum, frame):
            raise CaseTimeout(f"case exceeded {self.seconds}s")

        self._old = signal.signal(signal.SIGALRM, handler)
        signal.setitimer(signal.ITIMER_REAL, self.seconds)
        return self

    def __exit__(self, *a):
        import signal

        signal.setitimer(signal.ITIMER_REAL, 0)
        signal.signal(signal.SIGALRM, self._old)
        return False


def rng_for(spec, *extra):
    import numpy as np

    key = [int(spec.get("seed", 0)), int(spec.get("shard", 0))] + [int(e) for e in extra]
    return np.random.Generator(np.random.PCG64(np.random.SeedSequence(key)))
