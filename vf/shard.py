import sys
from vf.core import shard_main

if __name__ == "__main__":
    shard_main(sys.argv[1:4])
