"""Numerical tolerance policy (DESIGN.md section 3). Every comparison returns a slack = |a-b|/tol."""
import numpy as np

EPS = float(np.finfo(float).eps)
C = 64.0
FLOOR = 1e-300


def lsq_tol(m, n, scale, kappa=1.0):
    """Backward-error bound of a stable least-squares solve: c*eps*max(m,n)*kappa*scale."""
    return C * EPS * max(m, n, 1) * max(kappa, 1.0) * scale + FLOOR


def slack(diff, tol):
    diff = float(diff)
    if diff != diff:
        return float("inf")
    return diff / tol


def ulp_diff(a, b):
    """Distance in units in the last place between two float arrays (same shape)."""
    a = np.asarray(a, dtype=float)
    b = np.asarray(b, dtype=float)
    sp = np.spacing(np.maximum(np.abs(a), np.abs(b)))
    with np.errstate(invalid="ignore", divide="ignore"):
        d = np.abs(a - b) / sp
    d = np.where(a == b, 0.0, d)
    return d
