"""Harness megacomplexes (module level so that attrs can resolve the annotations)."""
from __future__ import annotations

import numpy as np

from glotaran.model import Megacomplex
from glotaran.model import Model
from glotaran.model import ParameterType
from glotaran.model import megacomplex


@megacomplex()
class VfExpMegacomplex(Megacomplex):
    type: str = "vf-exp"
    dimension: str = "time"
    labels: list[str]
    rates: list[ParameterType]
    disp: ParameterType | None = None

    def calculate_matrix(self, dataset_model, global_axis, model_axis, **kwargs):
        rates = np.asarray([float(r) for r in self.rates])
        t = np.asarray(model_axis, dtype=float)
        if self.disp is None:
            m = np.exp(-np.outer(t, rates))
        else:
            g = np.asarray(global_axis, dtype=float)
            m = np.exp(-t[None, :, None] * rates[None, None, :] * (1.0 + float(self.disp) * g[:, None, None]))
        return list(self.labels), m

    def finalize_data(self, dataset_model, dataset, is_full_model=False, as_global=False):
        pass


@megacomplex()
class VfGaussMegacomplex(Megacomplex):
    type: str = "vf-gauss"
    dimension: str = "spectral"
    labels: list[str]
    centers: list[ParameterType]
    width: ParameterType

    def calculate_matrix(self, dataset_model, global_axis, model_axis, **kwargs):
        c = np.asarray([float(r) for r in self.centers])
        x = np.asarray(model_axis, dtype=float)
        m = np.exp(-((x[:, None] - c[None, :]) ** 2) / (2.0 * float(self.width) ** 2))
        return list(self.labels), m

    def finalize_data(self, dataset_model, dataset, is_full_model=False, as_global=False):
        pass


VfModel = Model.create_class_from_megacomplexes([VfExpMegacomplex, VfGaussMegacomplex])
