"""Small random kinetic schemes built from the builtin decay megacomplexes (in-situ workloads)."""
from __future__ import annotations

import numpy as np
import xarray as xr


def all_builtin_model_class():
    from glotaran.model import Model
    from glotaran.plugin_system.megacomplex_registration import get_megacomplex

    names = ["decay", "decay-sequential", "decay-parallel", "damped-oscillation", "pfid", "spectral", "baseline",
             "coherent-artifact", "clp-guide"]
    return Model.create_class_from_megacomplexes([get_megacomplex(n) for n in names])


def random_decay_scheme(rng, max_nfev=6, expr_chain=False):
    from glotaran.parameter import Parameters
    from glotaran.project import Scheme
    from glotaran.simulation import simulate

    n = int(rng.integers(1, 4))
    kind = str(rng.choice(["decay-sequential", "decay-parallel"]))
    irf = bool(rng.integers(2))
    nnls = bool(rng.integers(2))
    nds = int(rng.choice([1, 1, 2]))
    linked = bool(nds > 1 and rng.integers(2))
    comps = [f"s{i + 1}" for i in range(n)]
    rates = sorted((10.0 ** rng.uniform(-1.5, 0.5, n)).tolist(), reverse=True)
    spec = {
        "megacomplex": {"mc1": {"type": kind, "compartments": comps, "rates": [f"k.{i + 1}" for i in range(n)]}},
        "dataset_groups": {"default": {"residual_function": "non_negative_least_squares" if nnls else "variable_projection",
                                       "link_clp": linked}},
        "dataset": {},
    }
    if irf:
        spec["irf"] = {"irf1": {"type": "gaussian", "center": "irf.center", "width": "irf.width"}}
    for d in range(nds):
        spec["dataset"][f"ds{d + 1}"] = {"megacomplex": ["mc1"], **({"irf": "irf1"} if irf else {})}
    model = all_builtin_model_class()(**spec)
    pdict = {"k": [[str(i + 1), r] for i, r in enumerate(rates)] + [{"non-negative": True}]}
    if irf:
        pdict["irf"] = [["center", 0.4], ["width", 0.15]]
    if expr_chain:
        # k.i = $k.1 * $aux.r<i>, aux.r<i> = $aux.base * c_i: expressions referencing expression
        # parameters that are declared LATER (group aux comes after group k)
        base = 1.0
        cs = [rates[i] / rates[0] for i in range(n)]
        pdict = {"k": [["1", rates[0], {"non-negative": True}]]
                 + [[str(i + 1), {"expr": f"$k.1 * $aux.r{i + 1}"}] for i in range(1, n)],
                 "aux": [[f"r{i + 1}", {"expr": f"$aux.base * {cs[i]!r}"}] for i in range(1, n)] + [["base", base]]}
        if irf:
            pdict["irf"] = [["center", 0.4], ["width", 0.15]]
    true_p = Parameters.from_dict(pdict)
    true_p.update_parameter_expression()
    data = {}
    nt = int(rng.integers(25, 70))
    for d in range(nds):
        ng = int(rng.integers(3, 9))
        t = np.sort(np.concatenate([[-0.5 if irf else 0.0], rng.uniform(-0.5 if irf else 0.0, 30.0, nt - 1)]))
        g = np.arange(ng, dtype=float) * 10 + 400
        clp = xr.DataArray(rng.uniform(0.2, 3.0, (ng, n)), coords=[("spectral", g), ("clp_label", comps)])
        ds = simulate(model, f"ds{d + 1}", true_p, {"time": t, "spectral": g}, clp)
        ds["data"] = ds.data + 0.02 * rng.standard_normal(ds.data.shape)
        data[f"ds{d + 1}"] = ds
    start = pdict if expr_chain else {k: ([[l, v * float(rng.uniform(0.8, 1.25))] for l, v in vals[:-1]] + [vals[-1]] if isinstance(vals[-1], dict)
                 else [[l, v * float(rng.uniform(0.9, 1.1))] for l, v in vals]) for k, vals in pdict.items()}
    if expr_chain:
        import copy as _copy

        start = _copy.deepcopy(pdict)
        start["k"][0][1] = rates[0] * float(rng.uniform(0.8, 1.25))
        start["aux"][-1][1] = float(rng.uniform(0.85, 1.15))
    scheme = Scheme(model=model, parameters=Parameters.from_dict(start), data=data,
                    maximum_number_function_evaluations=max_nfev)
    desc = {"kind": kind, "n_comp": n, "irf": irf, "residual_function": "nnls" if nnls else "vp", "n_datasets": nds,
            "linked": linked, "rates": rates}
    return desc, scheme
