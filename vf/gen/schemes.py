"""Scheme cases: JSON descriptions -> real Model / Parameters / data / Scheme.

The harness defines its own small megacomplexes so that the optimisation layer can be driven
with matrices the oracle knows in closed form (vf/ref/objective.py re-implements them):

  vf-exp    model dimension 'time': column j = exp(-rate_j * t), or, with `disp`,
            index dependent: exp(-rate_j * t * (1 + disp * g_i))
  vf-gauss  global megacomplex, dimension 'spectral': column j = exp(-(x - c_j)^2 / (2 w^2))
"""
from __future__ import annotations

import numpy as np
import xarray as xr

def model_class():
    from vf.gen.megacomplexes import VfModel

    return VfModel


def as_interval(iv):
    """JSON [[lo,hi],...] / [lo,hi] / None -> tuple / list of tuples / None (floats, inf strings)."""
    if iv is None:
        return None

    def f(v):
        return float(v)

    if len(iv) == 2 and not isinstance(iv[0], (list, tuple)):
        return (f(iv[0]), f(iv[1]))
    return [(f(a), f(b)) for a, b in iv]


def model_spec(case):
    spec = {"megacomplex": {}, "dataset": {}, "dataset_groups": {}}
    for name, m in case["megacomplexes"].items():
        d = {"type": "vf-exp", "labels": list(m["labels"]), "rates": list(m["rates"])}
        if m.get("disp"):
            d["disp"] = m["disp"]
        spec["megacomplex"][name] = d
    for name, m in case.get("global_megacomplexes", {}).items():
        spec["megacomplex"][name] = {"type": "vf-gauss", "labels": list(m["labels"]), "centers": list(m["centers"]),
                                     "width": m["width"]}
    for g, gd in case["groups"].items():
        spec["dataset_groups"][g] = {"residual_function": gd["residual_function"], "link_clp": gd["link_clp"]}
    for ds in case["datasets"]:
        d = {"group": ds["group"], "megacomplex": list(ds["megacomplex"])}
        if ds.get("mc_scale"):
            d["megacomplex_scale"] = list(ds["mc_scale"])
        if ds.get("scale"):
            d["scale"] = ds["scale"]
        if ds.get("global_megacomplex"):
            d["global_megacomplex"] = list(ds["global_megacomplex"])
        spec["dataset"][ds["label"]] = d
    if case.get("constraints"):
        spec["clp_constraints"] = [
            {"type": c["type"], "target": c["target"], **({"interval": as_interval(c["interval"])} if c.get("interval") is not None else {})}
            for c in case["constraints"]
        ]
    if case.get("relations"):
        spec["clp_relations"] = [
            {"source": r["source"], "target": r["target"], "parameter": r["parameter"],
             **({"interval": as_interval(r["interval"])} if r.get("interval") is not None else {})}
            for r in case["relations"]
        ]
    if case.get("penalties"):
        spec["clp_penalties"] = [
            {"type": "equal_area", "source": p["source"], "source_intervals": as_interval(p["source_intervals"]),
             "target": p["target"], "target_intervals": as_interval(p["target_intervals"]), "parameter": p["parameter"],
             "weight": p["weight"]}
            for p in case["penalties"]
        ]
    if case.get("weights"):
        spec["weights"] = [
            {"datasets": list(w["datasets"]), "value": w["value"],
             **({"global_interval": as_interval(w["global_interval"])} if w.get("global_interval") is not None else {}),
             **({"model_interval": as_interval(w["model_interval"])} if w.get("model_interval") is not None else {})}
            for w in case["weights"]
        ]
    return spec


def build_model(case):
    return model_class()(**model_spec(case))


def build_parameters(case):
    from glotaran.parameter import Parameter, Parameters

    ps = {}
    for label, p in case["parameters"].items():
        kw = {"label": label}
        for k_json, k in (("value", "value"), ("vary", "vary"), ("min", "minimum"), ("max", "maximum"),
                          ("non_negative", "non_negative"), ("expr", "expression")):
            if k_json in p and p[k_json] is not None:
                kw[k] = float(p[k_json]) if k in ("value", "minimum", "maximum") else p[k_json]
        ps[label] = Parameter(**kw)
    return Parameters(ps)


def dataset_arrays(ds):
    """Deterministic data (and weight) arrays of a dataset description, layout (model, global).
    Values carry a unique id in the low-order digits: round(N(0,1), 3) + 1e-6 * id."""
    rng = np.random.default_rng(ds["dseed"])
    nt, ng = len(ds["t"]), len(ds["g"])
    base = np.round(rng.standard_normal((nt, ng)) * ds.get("noise", 1.0), 3)
    ids = ds["id0"] + np.arange(nt * ng).reshape(nt, ng)
    data = base + 1e-6 * ids
    weight = None
    if ds.get("weight") == "dataset":
        weight = np.round(rng.uniform(0.5, 2.0, (nt, ng)), 3)
    return data, weight


def build_data(case, override=None):
    out = {}
    for ds in case["datasets"]:
        data, weight = dataset_arrays(ds)
        if override and ds["label"] in override:
            data = override[ds["label"]]
        t, g = np.asarray(ds["t"], dtype=float), np.asarray(ds["g"], dtype=float)
        # layouts: dimension order mg = (model, global) / gm = (global, model); suffix _f = Fortran-ordered memory
        lay = ds.get("layout", "mg")
        mem = np.asfortranarray if lay.endswith("_f") else np.ascontiguousarray
        if lay.startswith("mg"):
            da = xr.DataArray(mem(data), coords=[("time", t), ("spectral", g)])
            dataset = da.to_dataset(name="data")
            if weight is not None:
                dataset["weight"] = xr.DataArray(mem(weight), coords=[("time", t), ("spectral", g)])
        else:
            da = xr.DataArray(mem(data.T.copy()), coords=[("spectral", g), ("time", t)])
            dataset = da.to_dataset(name="data")
            if weight is not None:
                dataset["weight"] = xr.DataArray(mem(weight.T.copy()), coords=[("spectral", g), ("time", t)])
        out[ds["label"]] = dataset
    return out


def build_scheme(case, data=None, **kw):
    from glotaran.project import Scheme

    opts = dict(
        clp_link_tolerance=case.get("link_tolerance", 0.0),
        clp_link_method=case.get("link_method", "nearest"),
        maximum_number_function_evaluations=case.get("max_nfev", 3),
        optimization_method=case.get("method", "TrustRegionReflection"),
        add_svd=False,
    )
    opts.update(kw)
    return Scheme(model=build_model(case), parameters=build_parameters(case), data=data or build_data(case), **opts)


# ---------------------------------------------------------------- random cases
LABEL_POOLS = {
    "plain": ["ds1", "ds2", "ds3", "ds4"],
    "prefix": ["a", "ab", "b", "ba"],
    "substring": ["ds", "ds1", "1ds", "ds12"],
    "concat": ["ab", "c", "a", "bc"],
    "case": ["Data", "data", "DATA", "dAta"],
    "underscore": ["x_y", "x", "y", "x_y_baseline"],
    "dotted": ["run.a", "run.b", "run", "run.a.x"],  # labels become file names: equal up to the last dot
}


def gen_case(rng, features=None, max_datasets=4, allow_full=True, allow_two_groups=True, label_pool="plain", layouts=("mg",)):
    """Random scheme case from the C02 space.  `features`: dict overriding random feature choices."""
    F = dict(features or {})

    def pick(name, options, p=None):
        if name in F:
            return F[name]
        v = options[int(rng.choice(len(options), p=p))]
        F[name] = v
        return v

    nds = pick("n_datasets", [1, 2, 3, 4][:max_datasets])
    two_groups = pick("two_groups", [False, True], p=[0.75, 0.25]) if (allow_two_groups and nds >= 2) else False
    full_model = pick("full_model", [False, True], p=[0.85, 0.15]) if allow_full else False
    link = pick("link_clp", [True, False, None])
    nnls = pick("nnls", [False, True], p=[0.7, 0.3])
    idxdep = pick("index_dependent", [False, True], p=[0.6, 0.4])
    axes_kind = pick("axes", ["identical", "overlap", "disjoint", "within_tol"])
    wkind = pick("weights", ["none", "dataset", "model", "both"], p=[0.4, 0.3, 0.2, 0.1])
    use_scale = pick("dataset_scale", [False, True])
    use_mcscale = pick("megacomplex_scale", [False, True])
    ncon = pick("constraints", [0, 1, 2], p=[0.5, 0.3, 0.2])
    nrel = pick("relations", [0, 1, 2], p=[0.55, 0.3, 0.15])
    npen = pick("penalties", [0, 1, 2], p=[0.6, 0.3, 0.1])
    iv_kind = pick("intervals", ["none", "finite", "mixed"], p=[0.3, 0.4, 0.3])

    names = LABEL_POOLS[label_pool][:nds]
    if label_pool != "plain":
        names = [names[i] for i in rng.permutation(nds)]
    params = {}
    labels_all = ["a", "b", "c", "d"]
    # megacomplexes: m1 (a,b[,c]) m2 (b|c, d) share a label sometimes
    n1 = 2 if nnls else int(rng.integers(2, 4))
    mcs = {"m1": {"labels": labels_all[:n1], "rates": [f"k.{i + 1}" for i in range(n1)], "disp": "dsp.1" if idxdep else None}}
    rate_vals = list(np.round(10.0 ** rng.uniform(-1.2, 0.3, 8), 4))
    rate_vals = sorted(set(rate_vals), reverse=True)
    if nnls:
        # keep NNLS problems well conditioned (outside the regime of known finding F13)
        rate_vals = [2.0, 0.12] + rate_vals
    for i in range(n1):
        params[f"k.{i + 1}"] = {"value": rate_vals[i], "non_negative": bool(rng.integers(2))}
    use_m2 = bool(rng.integers(2)) and not nnls
    if use_m2:
        shared = labels_all[int(rng.integers(0, n1))]
        l2 = [shared, "e"] if rng.integers(2) else ["e"]
        mcs["m2"] = {"labels": l2, "rates": [f"q.{i + 1}" for i in range(len(l2))], "disp": None}
        for i in range(len(l2)):
            params[f"q.{i + 1}"] = {"value": rate_vals[n1 + i] * 0.37, "non_negative": False, "min": 1e-4, "max": 50.0}
    if idxdep:
        params["dsp.1"] = {"value": float(np.round(rng.uniform(0.01, 0.06), 4))}
    gmcs = {}
    groups = {"g1": {"link_clp": link, "residual_function": "non_negative_least_squares" if nnls else "variable_projection"}}
    if two_groups:
        groups["g2"] = {"link_clp": bool(rng.integers(2)), "residual_function": "variable_projection"}
    # global axes
    base_n = int(rng.integers(3, 7))
    base = np.arange(base_n, dtype=float) + float(rng.integers(0, 3))
    datasets = []
    id0 = 0
    tol = 0.0
    for i, name in enumerate(names):
        if axes_kind == "identical" or i == 0:
            g = base.copy()
        elif axes_kind == "overlap":
            g = base[: max(2, base_n - 1)] + float(i)
        elif axes_kind == "disjoint":
            g = base + 10.0 * i
        else:  # within tolerance of the first dataset's points, partially
            g = base[: max(2, base_n - i)] + 0.2
            tol = 0.3
        nt = int(rng.integers(8, 14))
        t = np.round(np.sort(rng.choice(np.arange(0, 60), nt, replace=False)) * 0.25, 3)
        ds = {"label": name, "group": "g2" if (two_groups and i >= (nds + 1) // 2) else "g1", "t": t.tolist(), "g": g.tolist(),
              "layout": str(rng.choice(list(layouts))), "megacomplex": ["m1"] + (["m2"] if use_m2 and rng.integers(3) else []),
              "dseed": int(rng.integers(2**31)), "id0": id0, "weight": None, "scale": None, "mc_scale": None}
        if rng.integers(2) and len(ds["megacomplex"]) == 2:
            ds["megacomplex"] = ds["megacomplex"][::-1]
        id0 += nt * len(g)
        if wkind in ("dataset", "both") and (rng.integers(2) or i == 0):
            ds["weight"] = "dataset"
        if use_scale and i > 0:
            ds["scale"] = f"scale.{i}"
            params[f"scale.{i}"] = {"value": float(np.round(rng.uniform(0.4, 2.5), 3)), "vary": bool(rng.integers(2))}
        if use_mcscale:
            ds["mc_scale"] = []
            for mname in ds["megacomplex"]:
                pl = f"ms.{name}_{mname}"
                params[pl] = {"value": float(np.round(rng.uniform(0.5, 2.0), 3)), "vary": False}
                ds["mc_scale"].append(pl)
        datasets.append(ds)
    scaled = [d for d in datasets if d.get("scale")]
    if len(scaled) >= 2 and rng.integers(3) == 0:
        # two (or more) parameters tied to one free parameter by the same expression: expression parameters with EQUAL values
        params["scale.c"] = {"value": float(np.round(rng.uniform(0.5, 2.0), 3)), "vary": True}
        for d in scaled:
            params[d["scale"]] = {"value": params["scale.c"]["value"], "expr": "$scale.c"}
        F["expression_twins"] = True
    if full_model:
        # full-model datasets: own group semantics (never linked); no dataset scale, no reduction
        gmcs["gm1"] = {"labels": ["x", "y"], "centers": ["gc.1", "gc.2"], "width": "gc.w"}
        allg = np.concatenate([d["g"] for d in datasets])
        params["gc.1"] = {"value": float(np.round(allg.min() + 0.3, 3))}
        params["gc.2"] = {"value": float(np.round(allg.max() - 0.4, 3))}
        params["gc.w"] = {"value": 1.7, "vary": False}
        k = int(rng.integers(0, nds))
        datasets[k]["global_megacomplex"] = ["gm1"]
        datasets[k]["scale"] = None
        if not two_groups or all(d["group"] == datasets[k]["group"] for d in datasets):
            pass
    case = {"datasets": datasets, "megacomplexes": mcs, "global_megacomplexes": gmcs, "groups": groups, "parameters": params,
            "link_tolerance": tol, "link_method": "nearest", "constraints": [], "relations": [], "penalties": [], "weights": []}
    has_full = any(d.get("global_megacomplex") for d in datasets)
    used_labels = sorted({l for d in datasets for m in d["megacomplex"] for l in mcs[m]["labels"]})
    allg = sorted({v for d in datasets for v in d["g"]})

    def interval(kind_ok=True):
        """Bounds on which 'inside' and 'nearest axis point' semantics coincide for every dataset:
        lower bound = a base-grid value, upper bound = base-grid value + 0.2 (offset datasets sit at +0.2)."""
        if iv_kind == "none" or (iv_kind == "mixed" and rng.integers(3) == 0):
            return None
        lo = float(np.floor(allg[int(rng.integers(0, len(allg)))]))
        hi = lo + float(rng.integers(0, 3)) + 0.2
        iv = [lo, hi] if rng.integers(2) else [hi, lo]
        if rng.integers(3) == 0:
            lo2 = hi + 1.8
            return [iv, [lo2, lo2 + 1.2]]
        return iv if rng.integers(2) else [iv]

    if not has_full:
        free = list(used_labels)
        rng.shuffle(free)
        for _ in range(ncon):
            if len(free) <= 2:
                break
            case["constraints"].append({"type": str(rng.choice(["zero", "only"])), "target": free.pop(), "interval": interval()})
        for _ in range(nrel):
            if len(free) < 2:
                break
            tgt, src = free.pop(), free[0]
            pl = f"rel.{len(case['relations']) + 1}"
            params[pl] = {"value": float(np.round(rng.uniform(0.3, 1.8), 3)), "vary": bool(rng.integers(2))}
            case["relations"].append({"source": src, "target": tgt, "parameter": pl, "interval": interval()})
        if case["relations"] and rng.integers(3) == 0:
            # a constraint on the SOURCE of a relation (both rules are satisfiable together: where the source is
            # forced to zero the related target is zero as well); a constraint on a relation's target would contradict it
            case["constraints"].append({"type": str(rng.choice(["zero", "only"])), "target": case["relations"][0]["source"], "interval": interval()})
            F["constraint_on_relation_source"] = True
        for _ in range(npen):
            src, tgt = [str(x) for x in rng.choice(used_labels, 2, replace=False)]
            pl = f"pen.{len(case['penalties']) + 1}"
            params[pl] = {"value": float(np.round(rng.uniform(0.5, 1.5), 3)), "vary": False}

            def ivs():
                iv = interval()
                if iv is None:
                    return [[-float("inf"), float("inf")]] if rng.integers(2) else [[allg[0], allg[-1] + 0.2]]
                return [iv] if not isinstance(iv[0], list) else iv

            def safe(ivl):
                # C02 keeps penalty intervals unambiguous on every axis they are applied to (C08 explores the rest)
                from vf.ref.intervals import unambiguous

                from vf.ref.intervals import nearest_set

                axes = [d["g"] for d in datasets] + [allg]

                def ok(a):
                    # every listed interval on its own (the library sums interval by interval: a point reached by two
                    # listed intervals would be counted twice), and no point reached by two of them
                    sets = [nearest_set(a, [iv]) for iv in ivl]
                    return all(unambiguous(a, [iv]) for iv in ivl) and sum(len(x) for x in sets) == len(set().union(*sets))

                if all(ok(a) for a in axes):
                    return ivl
                return [[-float("inf"), float("inf")]] if rng.integers(2) else [[allg[0] - 1.0, allg[-1] + 1.0]]

            case["penalties"].append({"source": src, "source_intervals": safe(ivs()), "target": tgt, "target_intervals": safe(ivs()),
                                      "parameter": pl, "weight": float(np.round(rng.uniform(0.1, 3.0), 3))})
    if wkind in ("model", "both"):
        for d in datasets:
            if rng.integers(3) == 0 and wkind == "model":
                continue
            w = {"datasets": [d["label"]], "value": float(np.round(rng.uniform(0.2, 3.0), 3)), "global_interval": None, "model_interval": None}
            if rng.integers(2):
                gi = sorted(rng.choice(len(d["g"]), 2, replace=True))
                w["global_interval"] = [d["g"][gi[0]], d["g"][gi[1]]]
            if rng.integers(2):
                ti = sorted(rng.choice(len(d["t"]), 2, replace=True))
                w["model_interval"] = [d["t"][ti[0]], d["t"][ti[1]]]
            case["weights"].append(w)
            if rng.integers(3) == 0:
                # a second weight item for the SAME dataset that leaves out an interval the first one set (the weights
                # multiply; an item without interval acts on the whole axis)
                w2 = {"datasets": [d["label"]], "value": float(np.round(rng.uniform(0.2, 3.0), 3)),
                      "global_interval": None if (w["global_interval"] is not None or rng.integers(2)) else w["global_interval"],
                      "model_interval": None if rng.integers(2) else w["model_interval"]}
                case["weights"].append(w2)
                F["two_weight_items_per_dataset"] = True
    case["features"] = {k: (v if not isinstance(v, (np.generic,)) else v.item()) for k, v in F.items()}
    case["features"]["label_pool"] = label_pool
    return case


def jsonable_case(case):
    """inf -> strings for JSON; as_interval() converts back with float()."""
    import json

    def conv(o):
        if isinstance(o, dict):
            return {k: conv(v) for k, v in o.items()}
        if isinstance(o, (list, tuple)):
            return [conv(v) for v in o]
        if isinstance(o, float) and o in (float("inf"), float("-inf")):
            return "inf" if o > 0 else "-inf"
        if isinstance(o, np.generic):
            return o.item()
        return o

    return json.loads(json.dumps(conv(case)))


def free_vectors(case, rng, n=3):
    """Real-space parameter dicts to evaluate: initial, random feasible, far."""
    out = [{}]
    for k in range(1, n):
        d = {}
        for label, p in case["parameters"].items():
            if p.get("vary", True) is False or p.get("expr"):
                continue
            f = float(rng.uniform(0.7, 1.4)) if k == 1 else float(rng.uniform(0.3, 3.0))
            v = p["value"] * f
            if "min" in p:
                v = max(v, p["min"])
            if "max" in p:
                v = min(v, p["max"])
            d[label] = v
        out.append(d)
    return out
