"""C20 - model validation is sound and complete for references.

Monitors: recorders on get_item_issues / get_item_model_issues / get_item_parameter_issues /
get_megacomplex_issues / fill_item (evidence: which structures were traversed).
Oracle: a hand-written table of every reference position of every builtin item type (vf below),
applied to generated valid specifications and to every single mutation of them.
"""
from __future__ import annotations

import copy

import numpy as np

from vf.core import rng_for, time_limit, CaseTimeout

LEVEL = "exploration"
RULE = (
    "Generated model specifications over all builtin item types (decay with 1-2 K-matrices, decay-parallel, decay-sequential, damped-"
    "oscillation, pfid, coherent-artifact, baseline, spectral with gaussian / skewed-gaussian shapes, clp-guide; gaussian / multi-"
    "gaussian / spectral(-multi)-gaussian IRFs with scale, shift, dispersion, backsweep; constraints, relations, penalties, weights, "
    "dataset groups, megacomplex / global megacomplex scales, dataset scale; 1-3 datasets).  Valid spec: no issue, fill + one "
    "optimisation evaluation raise no lookup error, generate_parameters() leaves no missing-parameter issue.  Then EVERY reference "
    "position of the hand-written table is mutated in turn (definition removed; label misspelled at that position; parameter removed), "
    "plus duplicated unique and combined exclusive megacomplexes: validate() must return (never raise), report an issue naming the "
    "label resp. megacomplex, valid() must be False; raise_exception=True may only raise ModelError.  Non-trivial: spec with >= 3 "
    "item kinds; distinct = (item type, attribute, structure, mutation kind)."
)
ASSUMPTIONS = [
    "the reference table REFS / PARAM_REFS below transcribes the documented model specification (which attribute refers to which section / to a parameter)",
    "non-lookup numerical failures of the one evaluation (non-finite model) are outside the property and skipped",
]
MIN_NONTRIVIAL = {"quick": 200, "thorough": 2000}
DECIDING = ["valid_specs_checked", "mutants_judged", "mon:get_item_issues", "mon:fill_item", "mon:get_megacomplex_issues", "evaluations_run"]


def attach(rec):
    import importlib

    from vf.instrument import wrap

    DM = importlib.import_module("glotaran.model.dataset_model")
    IT = importlib.import_module("glotaran.model.item")
    MO = importlib.import_module("glotaran.model.model")

    wrap(IT, "get_item_issues", rec=rec, key="mon:get_item_issues")
    wrap(IT, "get_item_model_issues", rec=rec, key="mon:get_item_model_issues")
    wrap(IT, "get_item_parameter_issues", rec=rec, key="mon:get_item_parameter_issues")
    wrap(DM, "get_megacomplex_issues", rec=rec, key="mon:get_megacomplex_issues")
    wrap(IT, "fill_item", rec=rec, key="mon:fill_item")
    MO.get_item_issues = IT.get_item_issues


# ---------------------------------------------------------------- reference table
# (section, attribute) -> (target section, structure)
REFS = {
    ("dataset", "megacomplex"): ("megacomplex", "list"),
    ("dataset", "global_megacomplex"): ("megacomplex", "list"),
    ("dataset", "initial_concentration"): ("initial_concentration", "scalar"),
    ("dataset", "irf"): ("irf", "scalar"),
    ("dataset", "group"): ("dataset_groups", "scalar"),
    ("megacomplex:decay", "k_matrix"): ("k_matrix", "list"),
    ("megacomplex:spectral", "shape"): ("shape", "dict"),
}
# (section[:type], attribute) -> structure of parameter labels
PARAM_REFS = {
    ("dataset", "scale"): "scalar", ("dataset", "megacomplex_scale"): "list", ("dataset", "global_megacomplex_scale"): "list",
    ("megacomplex:decay-parallel", "rates"): "list", ("megacomplex:decay-sequential", "rates"): "list",
    ("megacomplex:damped-oscillation", "frequencies"): "list", ("megacomplex:damped-oscillation", "rates"): "list",
    ("megacomplex:pfid", "frequencies"): "list", ("megacomplex:pfid", "rates"): "list",
    ("megacomplex:coherent-artifact", "width"): "scalar",
    ("k_matrix", "matrix"): "dict", ("initial_concentration", "parameters"): "list",
    ("irf", "center"): "any", ("irf", "width"): "any", ("irf", "scale"): "list", ("irf", "shift"): "list", ("irf", "dispersion_center"): "scalar",
    ("irf", "center_dispersion_coefficients"): "list", ("irf", "width_dispersion_coefficients"): "list", ("irf", "backsweep_period"): "scalar",
    ("shape", "amplitude"): "scalar", ("shape", "location"): "scalar", ("shape", "width"): "scalar", ("shape", "skewness"): "scalar",
    ("clp_relations", "parameter"): "scalar", ("clp_penalties", "parameter"): "scalar",
}


def iter_items(spec):
    """-> (section key for the tables, path to the item dict)"""
    for sect in ("dataset", "megacomplex", "k_matrix", "initial_concentration", "irf", "shape"):
        for label, it in spec.get(sect, {}).items():
            key = f"megacomplex:{it['type']}" if sect == "megacomplex" else sect
            yield key, (sect, label), it
    for sect in ("clp_relations", "clp_penalties"):
        for i, it in enumerate(spec.get(sect, [])):
            yield sect, (sect, i), it


def reference_positions(spec):
    """-> list of dict(kind=item|param, path, attr, pos, label, target)"""
    out = []
    for key, path, it in iter_items(spec):
        for (k, attr), (target, struct) in REFS.items():
            if k == key and attr in it and it[attr] is not None:
                v = it[attr]
                if struct == "scalar":
                    out.append({"kind": "item", "path": path, "attr": attr, "pos": None, "label": v, "target": target, "structure": "scalar", "holder": key})
                elif struct == "list":
                    for i, l in enumerate(v):
                        out.append({"kind": "item", "path": path, "attr": attr, "pos": i, "label": l, "target": target, "structure": "list", "holder": key})
                else:
                    for kk, l in v.items():
                        out.append({"kind": "item", "path": path, "attr": attr, "pos": kk, "label": l, "target": target, "structure": "dict", "holder": key})
        for (k, attr), struct in PARAM_REFS.items():
            if k == key and attr in it and it[attr] is not None:
                v = it[attr]
                if isinstance(v, str):
                    out.append({"kind": "param", "path": path, "attr": attr, "pos": None, "label": v, "structure": "scalar", "holder": key})
                elif isinstance(v, list):
                    for i, l in enumerate(v):
                        out.append({"kind": "param", "path": path, "attr": attr, "pos": i, "label": l, "structure": "list", "holder": key})
                elif isinstance(v, dict):
                    for kk, l in v.items():
                        out.append({"kind": "param", "path": path, "attr": attr, "pos": kk, "label": l, "structure": "dict", "holder": key})
    return out


def set_at(spec, ref, newlabel):
    s = copy.deepcopy(spec)
    it = s[ref["path"][0]][ref["path"][1]]
    if ref["pos"] is None:
        it[ref["attr"]] = newlabel
    else:
        it[ref["attr"]][ref["pos"]] = newlabel
    return s


# ---------------------------------------------------------------- generator
def gen_spec(rng):
    irf_kind = str(rng.choice(["spectral-multi-gaussian", "multi-gaussian", "gaussian", "spectral-gaussian"]))
    irf1 = {"type": irf_kind}
    single = irf_kind in ("gaussian", "spectral-gaussian")
    irf1["center"] = "i.c" if single else ["i.c"]
    irf1["width"] = "i.w1" if single else (["i.w1", "i.w2"] if rng.integers(2) else ["i.w1"])
    if not single and rng.integers(2):
        irf1["scale"] = ["i.s1", "i.s2"][: len(irf1["width"])]
    if irf_kind.startswith("spectral"):
        irf1["dispersion_center"] = "i.dc"
        irf1["center_dispersion_coefficients"] = ["i.cd1"] if rng.integers(2) else ["i.cd1", "i.cd2"]
        if rng.integers(2):
            irf1["width_dispersion_coefficients"] = ["i.wd1"]
    if rng.integers(3) == 0:
        irf1["shift"] = ["i.sh1", "i.sh2", "i.sh3"]
    if rng.integers(4) == 0:
        irf1["backsweep"] = True
        irf1["backsweep_period"] = "i.bp"
    spec = {
        "megacomplex": {
            "dec": {"type": "decay", "k_matrix": ["km1", "km2"] if rng.integers(2) else ["km1"]},
            "par": {"type": "decay-parallel", "compartments": ["p1", "p2"], "rates": ["r.p1", "r.p2"]},
            "seq": {"type": "decay-sequential", "compartments": ["q1", "q2"], "rates": ["r.q1", "r.q2"]},
            "osc": {"type": "damped-oscillation", "labels": ["o1"], "frequencies": ["o.f1"], "rates": ["o.r1"]},
            "art": {"type": "coherent-artifact", "order": 2, **({"width": "a.w"} if rng.integers(2) else {})},
            "bas": {"type": "baseline", "dimension": "time"},
            "spe": {"type": "spectral", "shape": {"s1": "sh1", "s2": "sh2"}},
            "pf": {"type": "pfid", "labels": ["f1"], "frequencies": ["pf.f"], "rates": ["pf.r"]},
        },
        "k_matrix": {"km1": {"matrix": {("s2", "s1"): "k.1", ("s2", "s2"): "k.2"}}, "km2": {"matrix": {("s3", "s2"): "k.3", ("s3", "s3"): "k.4"}}},
        "initial_concentration": {"ic": {"compartments": ["s1", "s2", "s3"], "parameters": ["j.1", "j.0", "j.0"]}},
        "irf": {"irf1": irf1, "irf2": {"type": "gaussian", "center": "i.c", "width": "i.w1"}},
        "shape": {"sh1": {"type": "gaussian", "amplitude": "sh.a", "location": "sh.l", "width": "sh.w"},
                  "sh2": {"type": "skewed-gaussian", "location": "sh.l2", "width": "sh.w", "skewness": "sh.s"}},
        "dataset_groups": {"g2": {"residual_function": "variable_projection", "link_clp": False}},
        "dataset": {},
    }
    pool = ["dec", "par", "osc", "art", "bas", "seq", "pf"]
    nds = int(rng.integers(1, 4))
    used_mc = set()
    for d in range(nds):
        k = int(rng.integers(1, 5))
        mcs = [str(x) for x in rng.choice(pool, size=k, replace=False)]
        ds = {"megacomplex": mcs, "irf": "irf1" if (d == 0 or rng.integers(2)) else "irf2"}
        if "dec" in mcs:
            ds["initial_concentration"] = "ic"
        if rng.integers(2):
            ds["megacomplex_scale"] = [f"ms.{d}_{i}" for i in range(len(mcs))]
        if rng.integers(2):
            ds["scale"] = f"sc.{d}"
        if d == 1:
            ds["group"] = "g2"
        if d == 0 and rng.integers(2):
            ds["global_megacomplex"] = ["spe"]
            if rng.integers(2):
                ds["global_megacomplex_scale"] = ["gs.1"]
        used_mc |= set(mcs) | set(ds.get("global_megacomplex", []))
        spec["dataset"][f"d{d + 1}"] = ds
    # drop unused items so that every definition is referenced (a removed definition is then always a dangling reference)
    spec["megacomplex"] = {k: v for k, v in spec["megacomplex"].items() if k in used_mc}
    if "dec" not in used_mc:
        spec.pop("k_matrix"), spec.pop("initial_concentration")
    elif len(spec["megacomplex"]["dec"]["k_matrix"]) == 1:
        spec["k_matrix"].pop("km2")
    if "spe" not in used_mc:
        spec.pop("shape")
    used_irf = {ds["irf"] for ds in spec["dataset"].values()}
    spec["irf"] = {k: v for k, v in spec["irf"].items() if k in used_irf}
    if not any(ds.get("group") == "g2" for ds in spec["dataset"].values()):
        spec.pop("dataset_groups")
    if rng.integers(2):
        spec["clp_relations"] = [{"source": "p1", "target": "p2", "parameter": "rel.p"}]
    if rng.integers(2):
        spec["clp_penalties"] = [{"type": "equal_area", "source": "p1", "source_intervals": [(1, 2)], "target": "p2", "target_intervals": [(1, 2)], "parameter": "pen.p", "weight": 1.0}]
    if rng.integers(2):
        spec["clp_constraints"] = [{"type": "zero", "target": "q1", "interval": [(1, 2)]}]
    if rng.integers(3) == 0:
        spec["weights"] = [{"datasets": ["d1"], "value": 2.0}]
    if rng.integers(3) == 0:
        share_labels(spec)
    return spec


def share_labels(spec, shared="x1"):
    """Labels are unique per collection only: give one item of every collection the SAME label."""
    ren = {"megacomplex": "dec" if "dec" in spec["megacomplex"] else sorted(spec["megacomplex"])[0], "k_matrix": "km1", "initial_concentration": "ic",
           "irf": sorted(spec["irf"])[0], "shape": "sh1"}
    for coll, old in ren.items():
        if coll in spec and old in spec[coll]:
            spec[coll] = {(shared if k == old else k): v for k, v in spec[coll].items()}
    mc_old = ren["megacomplex"]
    for ds in spec["dataset"].values():
        ds["megacomplex"] = [shared if m == mc_old else m for m in ds["megacomplex"]]
        if "global_megacomplex" in ds:
            ds["global_megacomplex"] = [shared if m == mc_old else m for m in ds["global_megacomplex"]]
        if ds.get("irf") == ren["irf"]:
            ds["irf"] = shared
        if ds.get("initial_concentration") == "ic":
            ds["initial_concentration"] = shared
    for mc in spec["megacomplex"].values():
        if "k_matrix" in mc:
            mc["k_matrix"] = [shared if k == "km1" else k for k in mc["k_matrix"]]
        if "shape" in mc:
            mc["shape"] = {k: (shared if v == "sh1" else v) for k, v in mc["shape"].items()}


VALUES = {"r.": 0.5, "o.f": 40.0, "o.r": 0.3, "a.w": 0.2, "pf.f": 520.0, "pf.r": -0.4, "k.": 0.4, "j.1": 1.0, "j.0": 0.0, "i.c": 0.3, "i.w": 0.12, "i.s": 1.0, "i.dc": 500.0,
          "i.cd": 0.02, "i.wd": 0.001, "i.bp": 13000.0, "i.sh": 0.02, "sh.a": 2.0, "sh.l": 500.0, "sh.w": 60.0, "sh.s": 0.2, "rel.": 0.7, "pen.": 1.0, "ms.": 1.0, "gs.": 1.0, "sc.": 1.3}


def param_value(label, i):
    for pre, v in sorted(VALUES.items(), key=lambda kv: -len(kv[0])):
        if label.startswith(pre):
            return v * (1 + 0.37 * (i % 5)) if pre in ("r.", "k.") else v
    return 1.0


def build(spec):
    from vf.gen.simple import all_builtin_model_class

    return all_builtin_model_class()(**copy.deepcopy(spec))


def issue_text(model, params):
    return str(model.validate(params)), [i.to_string() for i in model.get_issues(parameters=params)]


def json_spec(spec):
    def conv(o):
        if isinstance(o, dict):
            return {str(k): conv(v) for k, v in o.items()}
        if isinstance(o, (list, tuple)):
            return [conv(v) for v in o]
        return o

    return conv(spec)


# ---------------------------------------------------------------- checks
def check_valid(spec, rec, rng):
    from glotaran.model import ModelError
    from glotaran.parameter import Parameter, Parameters
    from glotaran.parameter.parameters import ParameterNotFoundException

    ctx = {"spec": json_spec(spec)}
    try:
        model = build(spec)
    except Exception as e:  # noqa
        rec.violation(f"valid-spec:construct-raises:{type(e).__name__}", ctx, f"{type(e).__name__}: {str(e)[:200]}")
        return None
    refs = reference_positions(spec)
    want_params = sorted({r["label"] for r in refs if r["kind"] == "param"})
    try:
        got_params = sorted(model.get_parameter_labels())
    except Exception as e:  # noqa
        rec.violation(f"valid-spec:get_parameter_labels-raises:{type(e).__name__}", ctx, f"{type(e).__name__}: {str(e)[:200]}")
        return None
    if got_params != want_params:
        rec.violation("parameter-discovery", ctx, f"model finds {sorted(set(got_params) - set(want_params))} extra / misses {sorted(set(want_params) - set(got_params))}")
    rec.count("valid_specs_checked")
    try:
        if not model.valid():
            rec.violation("valid-spec:reported-invalid", ctx, str(model.validate())[:300])
            return None
        gp = model.generate_parameters()
        text, issues = issue_text(model, gp)
        if issues:
            rec.violation("generate_parameters:leaves-issues", ctx, text[:300])
    except Exception as e:  # noqa
        rec.violation(f"valid-spec:validate-raises:{type(e).__name__}", ctx, f"{type(e).__name__}: {str(e)[:200]}")
        return None
    params = Parameters({l: Parameter(label=l, value=param_value(l, i), vary=not l.startswith(("j.", "i.dc", "ms.", "gs.", "sh.a"))) for i, l in enumerate(want_params)})
    if not model.valid(params):
        rec.violation("valid-spec+parameters:reported-invalid", ctx, str(model.validate(params))[:300])
        return None
    # fill + one evaluation
    import xarray as xr
    from glotaran.optimization.optimize import optimize
    from glotaran.project import Scheme

    t = np.linspace(-1, 10, 40)
    g = np.array([480.0, 520.0, 560.0])
    data = {}
    for d, ds in spec["dataset"].items():
        data[d] = xr.DataArray(rng.standard_normal((t.size, g.size)), coords=[("time", t), ("spectral", g)]).to_dataset(name="data")
    try:
        with time_limit(60):
            optimize(Scheme(model=model, parameters=params, data=data, maximum_number_function_evaluations=1, add_svd=False), verbose=False, raise_exception=True)
        rec.count("evaluations_run")
    except (KeyError, AttributeError, IndexError, TypeError, ModelError, ParameterNotFoundException) as e:
        import traceback

        fr = [f for f in traceback.extract_tb(e.__traceback__) if "/glotaran/" in f.filename]
        where = f"{fr[-1].filename.split('/glotaran/')[-1]}:{fr[-1].name}" if fr else "?"
        rec.violation(f"valid-spec:evaluation-lookup-error:{type(e).__name__}:{where}", ctx, f"{type(e).__name__}: {str(e)[:200]}")
    except (Exception, CaseTimeout) as e:  # noqa
        rec.skip(f"evaluation failed numerically: {type(e).__name__}")
    return model, params, refs


def judge_mutant(mspec, params, rec, ctx, must_name, mech, drop_param=None):
    """validate must return (never raise), name `must_name`, valid() False; raise_exception -> only ModelError."""
    from glotaran.model import ModelError
    from glotaran.parameter import Parameters

    rec.count("mutants_judged")
    try:
        model = build(mspec)
    except Exception as e:  # noqa
        # constructing a model with a dangling reference must work: validation is the place to report it
        rec.violation(f"{mech}:construct-raises:{type(e).__name__}", ctx, f"{type(e).__name__}: {str(e)[:200]}")
        return
    p = params
    if drop_param:
        p = Parameters({q.label: q.copy() for q in params.all() if q.label != drop_param})
    try:
        text, issues = issue_text(model, p)
        ok = model.valid(p)
    except Exception as e:  # noqa
        import traceback

        fr = [f for f in traceback.extract_tb(e.__traceback__) if "/glotaran/" in f.filename]
        where = f"{fr[-1].filename.split('/glotaran/')[-1]}:{fr[-1].name}" if fr else "?"
        rec.violation(f"{mech}:validate-raises:{type(e).__name__}:{where}", ctx, f"validate() raised {type(e).__name__}: {str(e)[:200]}")
        return
    if ok or not issues:
        rec.violation(f"{mech}:not-reported", ctx, f"validate() says: {text[:120]!r}; valid() = {ok}")
        return
    if must_name is not None and not any(must_name in s for s in issues):
        rec.violation(f"{mech}:label-not-named", ctx, f"no issue names {must_name!r}: {issues[:4]}")
    try:
        model.validate(p, raise_exception=True)
        rec.violation(f"{mech}:raise_exception-did-not-raise", ctx, "validate(raise_exception=True) returned for an invalid model")
    except ModelError:
        pass
    except Exception as e:  # noqa
        rec.violation(f"{mech}:raise_exception-wrong-type:{type(e).__name__}", ctx, f"{type(e).__name__}: {str(e)[:200]}")


def check_repeat(model, params, refs, rec, spec):
    """The SAME model object validated several times: with a parameter missing, with the complete set, with another one
    missing.  Each answer depends on the arguments of that call only."""
    from glotaran.parameter import Parameters

    labels = [r["label"] for r in refs if r["kind"] != "item"]
    labels = list(dict.fromkeys(labels))[:3]
    ctx = {"spec": json_spec(spec), "scenario": "one model object validated repeatedly"}
    try:
        for n, drop in enumerate(labels):
            p = Parameters({q.label: q.copy() for q in params.all() if q.label != drop})
            text, issues = issue_text(model, p)
            rec.count("repeated_validations")
            named = [s_ for s_ in issues if drop in s_]
            other = [s_ for s_ in issues if not any(d in s_ for d in [drop])]
            if not named:
                rec.violation("repeat:missing-parameter-not-reported", ctx, f"call {2 * n + 1}: parameter {drop!r} removed, issues {issues[:4]}")
                return
            stale = [s_ for s_ in other if any(d in s_ for d in labels[:n])]
            if stale:
                rec.violation("repeat:issues-of-an-earlier-call-reported-again", ctx, f"call {2 * n + 1}: parameter {drop!r} removed, but issues also name parameters missing in EARLIER calls: {stale[:3]}")
                return
            text, issues = issue_text(model, params)
            if issues or not model.valid(params):
                rec.violation("repeat:valid-model-reported-invalid-after-an-invalid-call", ctx, f"call {2 * n + 2}: complete parameters, validate() says {text[:160]!r}")
                return
    except Exception as e:  # noqa
        rec.violation(f"repeat:raises:{type(e).__name__}", ctx, f"{type(e).__name__}: {str(e)[:200]}")


def run_spec(spec, rec, rng, full):
    out = check_valid(spec, rec, rng)
    if out is None:
        return 0, False
    model, params, refs = out
    check_repeat(model, params, refs, rec, spec)
    n = 0
    kinds = {r["holder"] for r in refs}
    for r in refs:
        if not full and rng.integers(3):
            continue
        tag = f"{r['holder']}.{r['attr']}[{r['structure']}]"
        base_ctx = {"spec": json_spec(spec), "reference": {k: (list(v) if isinstance(v, tuple) else v) for k, v in r.items()}}
        if r["kind"] == "item":
            # (b) misspelled at this position
            bad = f"{r['label']}_undefined"
            judge_mutant(set_at(spec, r, bad), params, rec, dict(base_ctx, mutation="misspelled"), bad, f"misspelled:{tag}")
            # (a) definition removed
            s2 = copy.deepcopy(spec)
            if r["label"] in s2.get(r["target"], {}):
                del s2[r["target"]][r["label"]]
                judge_mutant(s2, params, rec, dict(base_ctx, mutation="definition-removed"), r["label"], f"definition-removed:{tag}")
            n += 2
        else:
            judge_mutant(spec, params, rec, dict(base_ctx, mutation="parameter-removed"), r["label"], f"parameter-removed:{tag}", drop_param=r["label"])
            bad = f"{r['label']}_undefined"
            judge_mutant(set_at(spec, r, bad), params, rec, dict(base_ctx, mutation="parameter-misspelled"), bad, f"parameter-misspelled:{tag}")
            n += 2
            # near misses of nested labels: the group a parameter lives in, and a child of the parameter - neither is a parameter
            existing = {p.label for p in params.all()}
            for bad, how in ((r["label"].rsplit(".", 1)[0], "group-prefix"), (r["label"] + ".1", "child-of-leaf")):
                if "." in r["label"] and bad not in existing and bad:
                    judge_mutant(set_at(spec, r, bad), params, rec, dict(base_ctx, mutation=f"parameter-{how}"), bad, f"parameter-{how}:{tag}")
                    n += 1
        rec.features[f"{tag}:{r['kind']}"] += 1
    # unique / exclusive megacomplexes
    for d, ds in spec["dataset"].items():
        if "bas" in ds["megacomplex"]:
            s2 = copy.deepcopy(spec)
            s2["megacomplex"]["bas2"] = {"type": "baseline", "dimension": "time"}
            s2["dataset"][d]["megacomplex"] = ds["megacomplex"] + ["bas2"]
            if "megacomplex_scale" in ds:
                s2["dataset"][d]["megacomplex_scale"] = ds["megacomplex_scale"] + [ds["megacomplex_scale"][0]]
            judge_mutant(s2, params, rec, {"spec": json_spec(s2), "mutation": "unique-duplicated"}, "baseline", "unique-megacomplex-duplicated")
            n += 1
            break
    d0 = next(iter(spec["dataset"]))
    s2 = copy.deepcopy(spec)
    s2["megacomplex"]["guide"] = {"type": "clp-guide", "dimension": "time", "target": "p1"}
    s2["dataset"][d0]["megacomplex"] = spec["dataset"][d0]["megacomplex"] + ["guide"]
    if "megacomplex_scale" in spec["dataset"][d0]:
        s2["dataset"][d0]["megacomplex_scale"] = spec["dataset"][d0]["megacomplex_scale"] + [spec["dataset"][d0]["megacomplex_scale"][0]]
    judge_mutant(s2, params, rec, {"spec": json_spec(s2), "mutation": "exclusive-combined"}, "clp-guide", "exclusive-megacomplex-combined")
    return n + 1, len(kinds) >= 3


def plan(tier, seed):
    n = {"quick": 16, "thorough": 32}[tier]
    return [{"shard": i, "n": {"quick": 14, "thorough": 120}[tier], "full": tier == "thorough"} for i in range(n)]


def warm_up(rec):
    """Validation state may not leak between models of one process: models whose datasets are plain dataset models
    (baseline only, clp-guide only) are validated first; the richer dataset types that follow are judged as usual."""
    from glotaran.parameter import Parameters

    for mspec in ({"megacomplex": {"b": {"type": "baseline", "dimension": "time"}}, "dataset": {"d1": {"megacomplex": ["b"]}}},
                  {"megacomplex": {"g": {"type": "clp-guide", "dimension": "time", "target": "s1"}}, "dataset": {"d1": {"megacomplex": ["g"]}}}):
        try:
            # a model class of exactly the megacomplex types used: its dataset type is the PLAIN dataset model, the
            # common base class of every richer dataset type
            from glotaran.model import Model
            from glotaran.plugin_system.megacomplex_registration import get_megacomplex

            narrow = Model.create_class_from_megacomplexes([get_megacomplex(mc["type"]) for mc in mspec["megacomplex"].values()])
            m = narrow(**copy.deepcopy(mspec))
            ok = m.valid(Parameters({}))
            rec.count("warm_up_models_validated")
            if not ok:
                rec.violation("warm-up:valid-model-rejected", {"spec": json_spec(mspec)}, f"{issue_text(m, Parameters({}))[0][:200]}")
        except Exception as e:  # noqa
            rec.violation(f"warm-up:raises:{type(e).__name__}", {"spec": json_spec(mspec)}, f"{type(e).__name__}: {str(e)[:200]}")


def run_shard(spec, rec):
    attach(rec)
    rng = rng_for(spec)
    warm_up(rec)
    for i in range(spec["n"]):
        s = gen_spec(rng)
        n, nt = run_spec(s, rec, rng, spec["full"] or i == 0)
        sig = (tuple(sorted(s["megacomplex"])), tuple(sorted(s.get("irf", {}))), len(s["dataset"]), tuple(sorted(k for k in s if k.startswith("clp_") or k == "weights")))
        rec.case(sig, nt, sample={"spec": json_spec(s)} if i == 0 else None, features=[f"n_datasets={len(s['dataset'])}"])
        rec.evaluations += n


def replay(case, rec):
    rec.note("C20 cases are regenerated by seed: ./check C20 --seed N (the mutation is described in the replay file)")
