"""C15 - failures during optimisation are contained and reported.

Fault injection: (i) function-boundary failpoints raising at the k-th OptimizationGroup.calculate /
k-th megacomplex matrix evaluation, k = 1..N (N measured on the fault-free run), four exception
classes, NaN / inf matrices; (ii) source-free LINE failpoints (sys.monitoring) raising at every
executed line of the optimiser / provider functions at evaluation 1, 2 and a middle one.
Observers: sys.stdout identity, warnings, deep scheme snapshot, matrix-evaluation counter,
set OK of parameter vectors whose model evaluation completed before the fault.
"""
from __future__ import annotations

import contextlib
import io
import sys
import warnings

import numpy as np

from vf.core import rng_for, time_limit, CaseTimeout
from vf.gen import schemes as S
from vf.props import c02, c03
from vf.ref import objective as O

LEVEL = "fault_enumeration"
RULE = (
    "Two small schemes (unlinked with penalties/relation/constraint; linked two-dataset) x 3 optimisation methods x verbose on/off x "
    "raise_exception on/off x stdout plain/redirected: an exception (ValueError, RuntimeError, ZeroDivisionError, custom class) is "
    "injected at the k-th group evaluation for EVERY k = 1..N (N = evaluations of the fault-free run incl. Jacobian points) and at "
    "the k-th megacomplex matrix evaluation; NaN / inf matrices instead of exceptions; sys.monitoring LINE failpoints at every "
    "executed line of 12 optimiser/provider functions at evaluation 1, 2 and a middle one (all lines in the thorough tier, a rotating "
    "slice in quick); every kind of invalid scheme.  Oracle = the statement's outcome table (InitialParameterError iff no evaluation "
    "completed; else Result(success False) with the injected message, one warning, parameters bit-equal to a successfully evaluated "
    "set, datasets consistent (C03 identities); raise_exception=True propagates the identical exception object; stdout restored, scheme "
    "untouched; invalid schemes rejected with the documented error before any matrix evaluation).  Non-trivial: k > 1; distinct = "
    "(scheme, method, options, fault kind, k or line)."
)
ASSUMPTIONS = [
    "an evaluation counts as 'evaluated without error' when every group's calculate() returned for that parameter vector",
    "line-level faults that strike after the model evaluation of the first objective call legitimately yield Result(success False)",
]
MIN_NONTRIVIAL = {"quick": 150, "thorough": 1500}
DECIDING = ["faults_fired", "outcomes_judged", "line_faults_fired", "nonfinite_injections", "invalid_schemes_judged"]
EXHAUSTIVE = {"quick": True, "thorough": True}

METHODS = ["TrustRegionReflection", "Dogbox", "Levenberg-Marquardt"]


class VfInjected(Exception):
    pass


EXC = {"ValueError": ValueError, "RuntimeError": RuntimeError, "ZeroDivisionError": ZeroDivisionError, "VfInjected": VfInjected}


# ---------------------------------------------------------------- schemes
def scheme_case(which):
    t1 = [0.0, 0.25, 0.5, 1.0, 1.5, 2.5, 4.0, 6.0, 8.0, 11.0]
    base = {"megacomplexes": {"m1": {"labels": ["a", "b"], "rates": ["k.1", "k.2"], "disp": None}}, "global_megacomplexes": {},
            "parameters": {"k.1": {"value": 1.4, "non_negative": True}, "k.2": {"value": 0.21}}, "link_tolerance": 0.0, "link_method": "nearest",
            "constraints": [], "relations": [], "penalties": [], "weights": [], "features": {}}
    if which == "unlinked":
        base["datasets"] = [{"label": "ds1", "group": "g1", "t": t1, "g": [1.0, 2.0, 3.0, 4.0], "layout": "mg", "megacomplex": ["m1"], "dseed": 11,
                             "id0": 0, "weight": None, "scale": None, "mc_scale": None}]
        base["groups"] = {"g1": {"link_clp": False, "residual_function": "variable_projection"}}
        base["parameters"]["pen.1"] = {"value": 1.1, "vary": False, "non_negative": True}  # fixed AND log-transformed: must survive the roll-back unchanged
        base["penalties"] = [{"source": "a", "source_intervals": [[1.0, 3.0]], "target": "b", "target_intervals": [[2.0, 4.0]], "parameter": "pen.1", "weight": 0.3}]
        base["constraints"] = [{"type": "zero", "target": "b", "interval": [1.0, 1.0]}]
    elif which == "three_groups":
        # several dataset groups: one objective evaluation is three group evaluations; a fault may hit any of them
        base["datasets"] = [{"label": f"ds{i + 1}", "group": f"g{i + 1}", "t": t1[: 10 - i], "g": [1.0 + i, 2.0 + i, 3.0 + i], "layout": "mg", "megacomplex": ["m1"],
                             "dseed": 21 + i, "id0": 100 * i, "weight": None, "scale": None, "mc_scale": None} for i in range(3)]
        base["groups"] = {f"g{i + 1}": {"link_clp": False, "residual_function": "variable_projection"} for i in range(3)}
        # the caller's arrays come in every layout; a model weight acts on the (global, model)-stored one
        base["datasets"][1]["layout"] = "gm"
        base["datasets"][2]["layout"] = "mg_f"
        base["weights"] = [{"datasets": ["ds2"], "value": 0.4, "global_interval": [2.0, 3.0], "model_interval": None}]
    else:
        base["datasets"] = [
            {"label": "ds1", "group": "g1", "t": t1, "g": [1.0, 2.0, 3.0], "layout": "mg", "megacomplex": ["m1"], "dseed": 5, "id0": 0, "weight": None, "scale": None, "mc_scale": None},
            {"label": "ds2", "group": "g1", "t": t1[:8], "g": [2.0, 3.0, 4.0], "layout": "mg", "megacomplex": ["m1"], "dseed": 6, "id0": 100, "weight": "dataset", "scale": "scale.2", "mc_scale": None}]
        base["datasets"][1]["layout"] = "gm"  # weighted AND stored (global, model): the provider has to work on its own copy
        base["groups"] = {"g1": {"link_clp": True, "residual_function": "variable_projection"}}
        base["parameters"]["scale.2"] = {"value": 1.3}
    base["features"] = {"scheme": which, "link_clp": which == "linked"}
    return S.jsonable_case(base)


def snapshot(scheme):
    return {
        "params": [tuple(sorted((k, repr(v)) for k, v in p.as_dict().items())) for p in scheme.parameters.all()],
        "model": repr(scheme.model.as_dict()),
        "data": {k: {n: (v.dims, v.values.tobytes()) for n, v in ds.data_vars.items() if n in ("data", "weight")} for k, ds in scheme.data.items()},
        "coords": {k: {c: ds.coords[c].values.tobytes() for c in ds.coords} for k, ds in scheme.data.items()},
    }


# ---------------------------------------------------------------- instrumentation
class Probe:
    """Counts evaluations, injects the fault, keeps the OK set."""

    def __init__(self, rec):
        self.rec = rec
        self.reset()

    def reset(self, kind=None, k=None, exc=None, level="group", msg="text"):
        self.kind, self.k, self.exc, self.level, self.msg = kind, k, exc, level, msg
        self.group_calls = 0
        self.matrix_calls = 0
        self.fired = False
        self.injected = None
        self.ok = []  # live real-space parameter dicts whose evaluation completed
        self.in_obj = None
        self.obj_calls = 0
        self.phase = "optimize"
        self.fired_phase = None
        self.fired_obj_call = None

    def attach(self):
        from glotaran.optimization.optimization_group import OptimizationGroup
        from glotaran.optimization.optimizer import Optimizer
        from vf.gen.megacomplexes import VfExpMegacomplex
        from vf.instrument import wrap

        probe = self
        orig_calc = OptimizationGroup.calculate

        def calculate(self_, parameters):
            probe.group_calls += 1
            if probe.level == "group" and probe.kind == "exception" and probe.group_calls == probe.k and not probe.fired:
                probe.fired = True
                probe.fired_phase = probe.phase
                probe.fired_obj_call = probe.obj_calls
                text = f"vf injected fault at group evaluation {probe.k}"
                # exceptions without a message (bare assert, ZeroDivisionError()) and with several lines occur too
                probe.injected = probe.exc() if probe.msg == "empty" else probe.exc(text + ("\nsecond line: details of the failure" if probe.msg == "multiline" else ""))
                raise probe.injected
            return orig_calc(self_, parameters)

        OptimizationGroup.calculate = calculate
        orig_cm = VfExpMegacomplex.calculate_matrix

        def calculate_matrix(self_, dataset_model, global_axis, model_axis, **kw):
            probe.matrix_calls += 1
            if probe.level == "matrix" and probe.matrix_calls == probe.k and not probe.fired:
                probe.fired = True
                probe.fired_phase = probe.phase
                probe.fired_obj_call = probe.obj_calls
                if probe.kind == "exception":
                    probe.injected = probe.exc(f"vf injected fault at matrix evaluation {probe.k}")
                    raise probe.injected
                labels, m = orig_cm(self_, dataset_model, global_axis, model_axis, **kw)
                m = m.copy()
                m[min(2, m.shape[0] - 1), 0] = np.nan if probe.kind == "nan" else np.inf
                return labels, m
            return orig_cm(self_, dataset_model, global_axis, model_axis, **kw)

        VfExpMegacomplex.calculate_matrix = calculate_matrix
        orig_cp = Optimizer.calculate_penalty

        def calculate_penalty(self_):
            # the model evaluation of this parameter vector = all groups' calculate(); done inside the loop
            n0 = probe.group_calls
            out = orig_cp(self_)
            return out

        orig_obj = Optimizer.objective_function

        def objective_function(self_, x):
            probe.obj_calls += 1
            probe.rec.count("mon:objective_function")
            try:
                out = orig_obj(self_, x)
            except BaseException:
                # did all groups complete for this vector? (fault after the model evaluation)
                if probe.group_calls_at_entry is not None and probe.group_calls - probe.group_calls_at_entry >= len(self_._optimization_groups) and not probe._raised_in_group:
                    probe.ok.append({p.label: float(p.value) for p in self_._parameters.all()})
                raise
            probe.ok.append({p.label: float(p.value) for p in self_._parameters.all()})
            return out

        def obj_wrapper(self_, x):
            probe.group_calls_at_entry = probe.group_calls
            probe._raised_in_group = False
            return objective_function(self_, x)

        Optimizer.objective_function = obj_wrapper
        # mark faults raised inside a group evaluation
        inner = OptimizationGroup.calculate

        def calc_mark(self_, parameters):
            try:
                return inner(self_, parameters)
            except BaseException:
                probe._raised_in_group = True
                raise

        OptimizationGroup.calculate = calc_mark
        self.group_calls_at_entry = None
        self._raised_in_group = False
        orig_create = Optimizer.create_result

        def create_result(self_):
            probe.phase = "create_result"
            return orig_create(self_)

        Optimizer.create_result = create_result


# ---------------------------------------------------------------- one run + judgement
def run_one(case, probe, rec, method, verbose, raise_exception, redirect, fault, line_target=None):
    """fault: dict(kind=exception|nan|inf|line|none, level, k, exc)."""
    from glotaran.optimization.optimize import optimize
    from glotaran.optimization.optimizer import InitialParameterError

    scheme = S.build_scheme(case, maximum_number_function_evaluations=case.get("max_nfev", 4), optimization_method=method)
    snap = snapshot(scheme)
    probe.reset(fault.get("kind"), fault.get("k"), EXC.get(fault.get("exc", "ValueError")), fault.get("level", "group"), fault.get("msg", "text"))
    from glotaran.optimization.optimizer import InitialParameterError  # noqa: F811

    def call():
        """-> (outcome dict, stdout object seen right before, right after the call)"""
        b = sys.stdout
        try:
            with warnings.catch_warnings(record=True) as w:
                warnings.simplefilter("always")
                with time_limit(60):
                    result = optimize(scheme, verbose=verbose, raise_exception=raise_exception)
            o = {"kind": "result", "result": result, "warnings": [str(x.message) for x in w]}
        except InitialParameterError as e:
            o = {"kind": "InitialParameterError", "exc": e}
        except CaseTimeout:
            o = {"kind": "timeout"}
        except BaseException as e:  # noqa
            o = {"kind": "raised", "exc": e}
        return o, b, sys.stdout

    # stdout is either the process's own stream object or an already redirected StringIO; verbose
    # output is swallowed by redirecting in both cases where it would reach the terminal
    if redirect or verbose:
        with contextlib.redirect_stdout(io.StringIO()):
            out, before, after = call()
    else:
        out, before, after = call()
    out["stdout_restored"] = after is before
    out["scheme_untouched"] = snapshot(scheme) == snap
    out["scheme"] = scheme
    return out


def judge(case, probe, out, rec, ctxd, raise_exception, fault):
    """Outcome table of the statement."""
    rec.count("outcomes_judged")
    tag = f"{fault['kind']}:{fault.get('level', '')}"
    if not out["stdout_restored"]:
        rec.violation(f"stdout-not-restored:{tag}", ctxd, f"sys.stdout after optimize() is not the object it was before ({out['kind']})")
    if not out["scheme_untouched"]:
        rec.violation(f"scheme-modified:{tag}", ctxd, "the caller's scheme (parameters / model / data) changed")
    if out["kind"] == "timeout":
        rec.skip("case timeout")
        return
    if fault["kind"] in ("nan", "inf"):
        # no exception other than the documented ones escapes; reported parameters finite
        if out["kind"] == "raised" and not raise_exception:
            import traceback

            frames = [f.name for f in traceback.extract_tb(out["exc"].__traceback__)]
            where = "create_result" if "create_result" in frames else "optimize"
            f20 = "F20" if where == "create_result" else None
            rec.violation(f"{'F20:' if f20 else ''}nonfinite-escaped:{where}:{type(out['exc']).__name__}", ctxd, f"{type(out['exc']).__name__}: {str(out['exc'])[:200]} (frames {frames[-4:]})", f20)
        if out["kind"] == "result":
            r = out["result"]
            if not all(np.isfinite(p.value) for p in r.optimized_parameters.all()):
                rec.violation("nonfinite-parameters-reported", ctxd, f"{[(p.label, p.value) for p in r.optimized_parameters.all()]}")
        return
    if not probe.fired:
        rec.skip("fault point not reached")
        return
    inj = probe.injected
    if probe.fired_phase == "create_result" and not raise_exception:
        # F20: evaluations made by create_result (after scipy returned) are outside optimize()'s try/except
        f20 = "F20" if (out["kind"] == "raised" and out["exc"] is inj) else None
        if out["kind"] != "result":
            got = out["kind"] if out["kind"] != "raised" else f"{type(out['exc']).__name__}: {str(out['exc'])[:100]}"
            rec.violation(f"{'F20:' if f20 else ''}fault-in-create_result-escaped:{tag}", ctxd, f"fault at an evaluation made while building the Result escaped: {got}", f20)
        return
    if raise_exception:
        if out["kind"] != "raised" or out["exc"] is not inj:
            got = out["kind"] if out["kind"] != "raised" else f"{type(out['exc']).__name__}: {out['exc']}"
            rec.violation(f"raise_exception-not-propagated:{tag}", ctxd, f"expected the injected exception object to propagate, got {got}")
        return
    if fault["kind"] == "line" and probe.fired_obj_call == 1 and out["kind"] in ("InitialParameterError", "result"):
        # a fault in the optimiser's own bookkeeping of the FIRST evaluation, after the model was evaluated: the
        # statement's fault model (model evaluation raises) does not say which of the two outcomes applies
        if out["kind"] == "result" and out["result"].success is not False:
            rec.violation(f"success-not-false:{tag}", ctxd, "fault in evaluation 1 but success is not False")
        return
    if not probe.ok:
        if out["kind"] != "InitialParameterError":
            got = out["kind"] if out["kind"] != "raised" else f"{type(out['exc']).__name__}: {str(out['exc'])[:100]}"
            rec.violation(f"expected-InitialParameterError:{tag}", ctxd, f"no evaluation completed before the fault, got {got}")
        return
    if out["kind"] != "result":
        got = out["kind"] if out["kind"] != "raised" else f"{type(out['exc']).__name__}: {str(out['exc'])[:100]}"
        rec.violation(f"fault-escaped:{tag}", ctxd, f"{len(probe.ok)} evaluations completed before the fault but optimize() did not return a Result: {got}")
        return
    r = out["result"]
    if r.success is not False:
        rec.violation(f"success-not-false:{tag}", ctxd, f"success={r.success}")
    if str(inj) not in str(r.termination_reason):
        rec.violation(f"termination-reason:{tag}", ctxd, f"termination_reason {r.termination_reason!r} does not carry {str(inj)!r}")
    nfail = [m for m in out["warnings"] if "Optimization failed" in m]
    if len(nfail) != 1:
        rec.violation(f"warning-count:{tag}", ctxd, f"{len(nfail)} 'Optimization failed' warnings")
    got = {p.label: float(p.value) for p in r.optimized_parameters.all()}
    # (the roll-back goes through the history, which stores non-negative parameters in log space: exp(log(v)) may be
    # one ulp off v; finite-difference neighbours differ by 1.5e-8, so 8 eps still identifies the evaluation)
    if not any(all(abs(got[l] - ok[l]) <= 8 * np.finfo(float).eps * abs(ok[l]) for l in got) for ok in probe.ok):
        rec.violation(f"parameters-not-from-successful-evaluation:{tag}", ctxd,
                      f"reported {got} is none of the {len(probe.ok)} parameter sets that evaluated without error")
    # datasets present and consistent with those parameters
    bad = c03.check_result(case, r, rec, case)
    for mech, detail in bad[:2]:
        rec.violation(f"datasets-inconsistent:{mech}:{tag}", ctxd, detail)
    n = r.number_of_function_evaluations
    if not (1 <= n <= probe.obj_calls + 2):
        rec.violation(f"nfev-implausible:{tag}", ctxd, f"number_of_function_evaluations={n} with {probe.obj_calls} objective calls")


# ---------------------------------------------------------------- line-level failpoints
def line_targets():
    import glotaran.optimization.estimation_provider as EP
    import glotaran.optimization.matrix_provider as MP
    import glotaran.optimization.optimization_group as OG
    import glotaran.optimization.optimizer as OP

    fs = [OP.Optimizer.calculate_penalty, MP.MatrixProviderUnlinked.calculate, MP.MatrixProviderUnlinked.calculate_prepared_matrices,
          MP.MatrixProvider.calculate_dataset_matrices, MP.MatrixProvider.reduce_matrix, MP.MatrixProviderLinked.calculate,
          MP.MatrixProviderLinked.calculate_aligned_matrices, EP.EstimationProviderUnlinked.estimate,
          EP.EstimationProviderUnlinked.calculate_estimation, EP.EstimationProvider.calculate_clp_penalties,
          EP.EstimationProviderUnlinked.get_full_penalty, EP.EstimationProviderLinked.estimate, EP.EstimationProviderLinked.get_full_penalty,
          EP.EstimationProvider.retrieve_clps]
    return {f.__code__: f.__qualname__ for f in fs}


def run_line_faults(case, probe, rec, method, evals, slice_mod, slice_idx):
    """Raise at every executed line of the target functions, at the given objective evaluations."""
    from glotaran.optimization.optimize import optimize

    mon = sys.monitoring
    TOOL = mon.DEBUGGER_ID
    codes = line_targets()
    seen = set()

    def collect(code, line):
        if code in codes:
            seen.add((code, line))
        return mon.DISABLE

    mon.use_tool_id(TOOL, "vf-c15")
    try:
        mon.register_callback(TOOL, mon.events.LINE, collect)
        for c in codes:
            mon.set_local_events(TOOL, c, mon.events.LINE)
        probe.reset("none")
        scheme = S.build_scheme(case, maximum_number_function_evaluations=case.get("max_nfev", 4), optimization_method=method)
        with contextlib.redirect_stdout(io.StringIO()):
            optimize(scheme, verbose=False)
        for c in codes:
            mon.set_local_events(TOOL, c, 0)
        state = {"target": None, "at": None}

        def fire(code, line):
            if (code, line) == state["target"] and probe.obj_calls == state["at"] and not probe.fired:
                probe.fired = True
                probe.fired_phase = probe.phase
                probe.fired_obj_call = probe.obj_calls
                probe.injected = VfInjected(f"vf line fault {codes[code]}:{line}")
                raise probe.injected

        mon.register_callback(TOOL, mon.events.LINE, fire)
        targets = sorted(seen, key=lambda cl: (codes[cl[0]], cl[1]))
        rec.count("lines_discovered", len(targets))
        for ti, tgt in enumerate(targets):
            if ti % slice_mod != slice_idx:
                continue
            for at in evals:
                for raise_exception in (False, True):
                    state.update(target=tgt, at=at)
                    mon.set_local_events(TOOL, tgt[0], mon.events.LINE)
                    fault = {"kind": "line", "level": f"{codes[tgt[0]]}", "k": at}
                    try:
                        out = run_one(case, probe, rec, method, False, raise_exception, False, fault)
                        # run_one resets the probe: mark the kind so that group/matrix failpoints stay off
                    finally:
                        mon.set_local_events(TOOL, tgt[0], 0)
                    ctxd = {"scheme": case["features"]["scheme"], "method": method, "fault": "line", "where": f"{codes[tgt[0]]}:{tgt[1] - tgt[0].co_firstlineno}",
                            "at_evaluation": at, "raise_exception": raise_exception}
                    if probe.fired:
                        rec.count("line_faults_fired")
                    judge(case, probe, out, rec, ctxd, raise_exception, fault)
                    rec.case(("line", case["features"]["scheme"], method, codes[tgt[0]], tgt[1] - tgt[0].co_firstlineno, at, raise_exception), at > 1 and probe.fired,
                             sample=ctxd if ti == slice_idx and at == evals[0] and not raise_exception else None, features=["fault=line"])
    finally:
        mon.free_tool_id(TOOL)


# ---------------------------------------------------------------- invalid schemes
def run_invalid(rec, probe):
    from glotaran.model import ModelError
    from glotaran.optimization.estimation_provider import UnsupportedResidualFunctionError
    from glotaran.optimization.optimize import optimize
    from glotaran.optimization.optimizer import MissingDatasetsError, ParameterNotInitializedError, UnsupportedMethodError
    from glotaran.parameter.parameters import ParameterNotFoundException
    from glotaran.project import Scheme

    base = scheme_case("linked")

    def mk(mut):
        c = S.jsonable_case(base)
        mut(c)
        return c

    cases = []
    cases.append(("missing-data", base, lambda s: Scheme(model=s.model, parameters=s.parameters, data={k: v for k, v in s.data.items() if k != "ds2"}), (MissingDatasetsError,)))
    def no_params(s):
        s.parameters = None
        return s

    cases.append(("parameters-none", base, no_params, (ParameterNotInitializedError,)))
    cases.append(("unknown-method", base, lambda s: Scheme(model=s.model, parameters=s.parameters, data=s.data, optimization_method="Newton"), (UnsupportedMethodError,)))

    def bad_resfun(c):
        c["groups"]["g1"]["residual_function"] = "least_absolute"

    cases.append(("unknown-residual-function", mk(bad_resfun), None, (UnsupportedResidualFunctionError,)))

    def missing_param(c):
        del c["parameters"]["k.2"]

    cases.append(("missing-parameter", mk(missing_param), None, (ParameterNotFoundException, ModelError)))

    def unknown_group(c):
        c["datasets"][1]["group"] = "nogroup"

    cases.append(("unknown-dataset-group", mk(unknown_group), None, (ModelError,)))
    for name, c, transform, expected in cases:
        for raise_exception in (False, True):
            probe.reset("none")
            rec.count("invalid_schemes_judged")
            ctxd = {"invalid": name, "raise_exception": raise_exception}
            before = sys.stdout
            try:
                scheme = S.build_scheme(c)
                if transform:
                    scheme = transform(scheme)
                with warnings.catch_warnings():
                    warnings.simplefilter("ignore")
                    optimize(scheme, verbose=False, raise_exception=raise_exception)
                rec.violation(f"invalid-scheme-accepted:{name}", ctxd, "optimize() returned instead of rejecting the scheme")
            except expected:
                pass
            except Exception as e:  # noqa
                rec.violation(f"invalid-scheme-wrong-error:{name}", ctxd, f"expected {[x.__name__ for x in expected]}, got {type(e).__name__}: {str(e)[:200]}")
            if probe.matrix_calls:
                rec.violation(f"invalid-scheme-evaluated:{name}", ctxd, f"{probe.matrix_calls} matrix evaluations before the scheme was rejected")
            if sys.stdout is not before:
                rec.violation(f"stdout-not-restored:invalid:{name}", ctxd, "sys.stdout changed")
                sys.stdout = before
            rec.case(("invalid", name, raise_exception), True, sample=ctxd if not raise_exception else None, features=["invalid-scheme"])


# ---------------------------------------------------------------- shards
def plan(tier, seed):
    specs = []
    for which in ("unlinked", "linked", "three_groups"):
        for method in METHODS:
            specs.append({"mode": "function", "scheme": which, "method": method, "shard": len(specs)})
    nline = {"quick": 6, "thorough": 6}[tier]
    for which in ("unlinked", "linked"):
        for mi, method in enumerate(METHODS):
            specs.append({"mode": "line", "scheme": which, "method": method, "shard": len(specs),
                          "slice_mod": {"quick": 4, "thorough": 1}[tier], "slice_idx": (mi + (0 if which == "unlinked" else 2)) % 4 if tier == "quick" else 0})
    specs.append({"mode": "invalid", "shard": len(specs)})
    return specs


def run_shard(spec, rec):
    S.model_class()
    c03.attach(rec)
    probe = Probe(rec)
    probe.attach()
    if spec["mode"] == "invalid":
        return run_invalid(rec, probe)
    case = scheme_case(spec["scheme"])
    method = spec["method"]
    if method == "Levenberg-Marquardt":
        for p in case["parameters"].values():
            p.pop("min", None)
            p.pop("max", None)
    # fault-free run: N
    out = run_one(case, probe, rec, method, False, False, False, {"kind": "none"})
    if out["kind"] != "result" or not out["result"].success:
        rec.violation("fault-free-run-failed", {"scheme": spec["scheme"], "method": method}, str(out.get("exc")))
        return
    N, NM = probe.group_calls, probe.matrix_calls
    rec.count("fault_free_group_evaluations", N)
    if spec["mode"] == "line":
        mid = max(3, probe.obj_calls // 2)
        return run_line_faults(case, probe, rec, method, [1, 2, mid], spec["slice_mod"], spec["slice_idx"])
    excs = list(EXC)
    i = 0
    for k in range(1, N + 1):
        for verbose in (False, True):
            for raise_exception in (False, True):
                for redirect in (False, True):
                    i += 1
                    fault = {"kind": "exception", "level": "group", "k": k, "exc": excs[(i + k) % 4], "msg": ["text", "empty", "multiline"][(i + 2 * k) % 3]}
                    out = run_one(case, probe, rec, method, verbose, raise_exception, redirect, fault)
                    ctxd = {"scheme": spec["scheme"], "method": method, "fault": fault, "verbose": verbose, "raise_exception": raise_exception, "stdout_redirected": redirect}
                    if probe.fired:
                        rec.count("faults_fired")
                    judge(case, probe, out, rec, ctxd, raise_exception, fault)
                    rec.case(("group", spec["scheme"], method, k, verbose, raise_exception, redirect), k > 1 and probe.fired, sample=ctxd if k == 2 and i % 8 == 0 else None,
                             features=[f"fault=exception:{excs[(i + k) % 4]}", f"method={method}"])
    for k in range(1, NM + 1):
        for kind in ("exception", "nan", "inf"):
            for raise_exception in (False, True):
                fault = {"kind": kind, "level": "matrix", "k": k, "exc": "VfInjected"}
                out = run_one(case, probe, rec, method, False, raise_exception, False, fault)
                ctxd = {"scheme": spec["scheme"], "method": method, "fault": fault, "raise_exception": raise_exception}
                if probe.fired:
                    rec.count("faults_fired" if kind == "exception" else "nonfinite_injections")
                judge(case, probe, out, rec, ctxd, raise_exception, fault)
                rec.case(("matrix", spec["scheme"], method, k, kind, raise_exception), k > 1 and probe.fired, features=[f"fault={kind}:matrix"])


def replay(case, rec):
    S.model_class()
    c03.attach(rec)
    probe = Probe(rec)
    probe.attach()
    if "invalid" in case:
        return run_invalid(rec, probe)
    c = scheme_case(case["scheme"])
    if case["fault"] == "line":
        rec.note("line-level faults are re-run by the shard (scheme, method); rerun ./check C15")
        return
    out = run_one(c, probe, rec, case["method"], case.get("verbose", False), case["raise_exception"], case.get("stdout_redirected", False), case["fault"])
    judge(c, probe, out, rec, case, case["raise_exception"], case["fault"])
