"""C01 - the linear sub-problem is solved optimally (variable projection and NNLS).

Monitor: icontract postcondition (record-and-return-True) on the two residual functions, on both
entries of SUPPORTED_RESIUDAL_FUNCTIONS and on EstimationProvider.calculate_residual.
Oracle: optimality certificate per call (shapes, r = y - A x, orthogonality / KKT) plus an
independent optimum (SVD lstsq / exhaustive active-set enumeration).
"""
from __future__ import annotations

import numpy as np

from vf import tol as T
from vf.core import rng_for
from vf.ref.lsq import lstsq_ref, nnls_enum

LEVEL = "exploration"
RULE = (
    "Direct instances: seeded generator over (residual function, n=1..8, m=n..400, matrix class {gaussian, prescribed "
    "singular spectrum kappa=1..1e10, kinetic exponentials with rate ratios 1.001..1e3 with/without Gaussian IRF, damped "
    "oscillations, stacked/weighted blocks, badly scaled columns}, data class {in column space, orthogonal, generic, "
    "needs-negative-coefficients, scale 1e-10..1e100}, memory layout {C, F, strided view, 3-D slice}); in-situ: the same "
    "postcondition fires on every internal solve of real optimisations. Non-trivial: residual and fitted part both "
    "non-zero (for NNLS the evidence also counts cases with active and inactive constraints); distinct = (function, n, "
    "m-bucket, kappa decade, matrix class, data class, layout)."
)
ASSUMPTIONS = [
    "numpy.linalg.lstsq / SVD are the trusted base for the independent optimum",
    "NNLS global optimum by exhaustive enumeration of all 2^n supports (n <= 8)",
    "rank-deficient matrices and kappa > 1e10 are outside the property and are skipped (counted)",
]
MIN_NONTRIVIAL = {"quick": 300, "thorough": 1500}
DECIDING = ["contract:variable_projection", "contract:nnls", "certificates_checked", "insitu_solves_checked"]

KAPPA_MAX = 1e10


# ---------------------------------------------------------------- oracle
def nrm(v, axis=None):
    """Euclidean norm that neither overflows nor underflows in the squares."""
    v = np.asarray(v, dtype=float)
    mx = np.max(np.abs(v), axis=axis, keepdims=axis is not None) if v.size else 0.0
    mx = np.where(mx > 0, mx, 1.0)
    out = np.linalg.norm(v / mx, axis=axis) * (np.squeeze(mx, axis=axis) if axis is not None else mx)
    return out if axis is not None else float(out)


def judge(kind, A, y, x, r, ctx):
    """-> list of (mechanism, detail, slackname, slack).  Kappa-free backward-error tolerances:
    a stable solver returns the exact solution of a problem perturbed by c*m*eps relative."""
    out = []
    A = np.asarray(A, dtype=float)
    y = np.asarray(y, dtype=float)
    m, n = A.shape
    x = np.asarray(x)
    r = np.asarray(r)
    if x.shape != (n,) or r.shape != (m,):
        return [(f"{kind}:shape", f"clp {x.shape} residual {r.shape} for matrix {A.shape}", None, 0.0)]
    if not (np.isfinite(x).all() and np.isfinite(r).all()):
        return [(f"{kind}:non-finite", "non-finite clp/residual for finite input", None, 0.0)]
    nA = nrm(A)
    ny = nrm(y)
    scale = nA * nrm(x) + ny
    cm = T.C * T.EPS * max(m, n)
    # identity r = y - A x
    t = cm * scale + T.FLOOR
    s = T.slack(nrm(y - A @ x - r), t)
    out.append((f"{kind}:identity", "residual != data - matrix @ clp", "identity", s))
    coln = nrm(A, axis=0)
    g = A.T @ r
    tj = cm * coln * scale + T.FLOOR
    if kind == "vp":
        s = float(np.max(np.abs(g) / tj))
        out.append(("vp:orthogonality", f"residual not orthogonal to column {int(np.argmax(np.abs(g) / tj))}", "orthogonality", s))
        xr, rr, rank, sv = lstsq_ref(A, y)
        s = T.slack(nrm(r) - nrm(rr), cm * scale + T.FLOOR)
        out.append(("vp:optimum", f"|r|={np.linalg.norm(r):.6e} > independent optimum {np.linalg.norm(rr):.6e}", "optimum", s))
    else:
        if (x < 0).any():
            out.append(("nnls:negative-clp", f"min clp {x.min()}", None, float("inf")))
        s = float(np.max(g / tj))
        out.append(("nnls:dual-feasibility", f"gradient positive at column {int(np.argmax(g / tj))}: a better non-negative clp exists", "dual", s))
        pos = x > 0
        if pos.any():
            s = float(np.max(np.abs(g[pos]) / tj[pos]))
            out.append(("nnls:complementary-slackness", "gradient non-zero on a positive clp", "compl", s))
        if n <= 8:
            rbest, xbest, S = nnls_enum(A, y)
            s = T.slack(nrm(r) - rbest, cm * scale + T.FLOOR)
            out.append(("nnls:optimum", f"|r|={np.linalg.norm(r):.6e} > enumerated optimum {rbest:.6e} (support {S})", "optimum", s))
            ctx["n_active"] = int(n - len(S))
    return out


def scipy_bug_model(A, y, x, r):
    """F13 bug model: pyglotaran faithfully returns what scipy.optimize.nnls computes (normal
    equations + absolute tolerances): clp bit-equal to scipy's answer on the very same array
    objects and residual bit-equal to data - matrix @ clp."""
    from scipy.optimize import nnls

    try:
        xs, _ = nnls(A, y)
    except Exception:  # noqa
        return False
    return bool(np.array_equal(xs, x) and np.array_equal(y - np.dot(A, xs), r))


def f13_predicate(A, y, kappa):
    """Regime in which scipy 1.14's NNLS (Lawson-Hanson on the normal equations A^T A with the absolute
    tolerance tol_abs = 10*max(m,n)*eps on gradient and coefficients) cannot be expected to meet a
    backward-stable, scale-invariant optimality certificate:
      ill_conditioned  eps*kappa^2 exceeds the backward-stable bound c*max(m,n)*eps
      abs_tolerance    tol_abs exceeds the relative gradient tolerance of some column, or is not
                       negligible against the natural coefficient scale |y| / max|a_j|
      huge_scale       eps * max(|A^T y|, max|a_j| |y|) exceeds tol_abs (rounding noise of the gradient above the absolute tolerance:
                       'Maximum number of iterations reached' for some memory layouts)"""
    A = np.asarray(A, dtype=float)
    y = np.asarray(y, dtype=float)
    m, n = A.shape
    mm = max(m, n)
    tol_abs = 10 * mm * T.EPS
    coln = nrm(A, axis=0)
    ny = nrm(y)
    tj = T.C * T.EPS * mm * coln * ny
    g = float(np.max(np.abs(A.T @ y))) if y.size else 0.0
    return {
        "ill_conditioned": bool(kappa * kappa >= T.C * mm),
        "abs_tolerance": bool(tol_abs > tj.min() or tol_abs >= 1e-3 * ny / max(coln.max(), 1e-300)),
        # rounding noise eps * |A^T y| of the gradient exceeds the absolute tolerance: termination is a matter of luck
        "huge_scale": bool(T.EPS * max(g, float(coln.max()) * ny) > tol_abs),
    }


def report(kind, A, y, x, r, rec, case, kappa=None, refs=None):
    """A, y: pristine copies of the inputs; refs: the very objects the function was called with."""
    ctx = {}
    res = judge(kind, A, y, x, r, ctx)
    if any(s != s for _, _, _, s in res):
        rec.skip("oracle arithmetic overflowed (non-finite certificate)")
        return ctx, False
    rec.count("certificates_checked")
    bad = [(mech, det, s) for mech, det, name, s in res if s > 1.0]
    if kappa is None:
        sv = np.linalg.svd(np.asarray(A, dtype=float), compute_uv=False)
        kappa = float(sv[0] / sv[-1]) if sv[-1] > 0 else float("inf")
    pred = f13_predicate(A, y, kappa) if kind == "nnls" else {}
    inregime = any(pred.values())
    if kind == "nnls":
        rec.count("nnls_in_F13_regime" if inregime else "nnls_outside_F13_regime")
    for mech, det, name, s in res:
        if name and not inregime:
            rec.slack(f"{kind}:{name}", s)
    if bad:
        finding = None
        if kind == "nnls" and inregime:
            Ar, yr = refs if refs is not None and np.array_equal(refs[0], A) and np.array_equal(refs[1], y) else (A, y)
            if scipy_bug_model(Ar, yr, x, r):
                finding = "F13"
        for mech, det, s in bad:
            rec.violation(mech if finding is None else f"F13:{mech}", dict(case, kappa=kappa, regime=pred),
                          f"{det} (slack {s:.3g}, kappa {kappa:.2e})", finding)
    return ctx, bool(bad)


# ---------------------------------------------------------------- monitors
FAILPOINT = {"arm": None, "calls": 0, "fired": 0}


def attach(rec, log=None):
    """icontract postconditions on the real functions.  `log` (list) receives (kind, A, y, x, r)."""
    import glotaran.optimization.estimation_provider as ep
    import glotaran.optimization.nnls as nn
    import glotaran.optimization.variable_projection as vp
    from vf.instrument import ensure

    def snap(matrix, data):
        return (np.array(matrix, copy=True), np.array(data, copy=True))

    def make(kind):
        def cond(matrix, data, result, OLD):
            rec.count(f"contract:{'variable_projection' if kind == 'vp' else 'nnls'}")
            A0, y0 = OLD.snap
            if not (np.array_equal(A0, matrix) and np.array_equal(y0, data)):
                rec.violation(f"{kind}:inputs-modified", {"shape": list(np.shape(matrix))}, "residual function modified its inputs")
            if log is not None:
                log.append((kind, A0, y0, result[0], result[1], (matrix, data)))
            return True

        return cond

    ensure(vp, "residual_variable_projection", make("vp"), rec, snapshot=snap)
    ensure(nn, "residual_nnls", make("nnls"), rec, snapshot=snap)

    def with_failpoint(fn):
        # fault injection: the armed call raises what scipy's solver raises when it gives up; a caller that turns
        # the fault into an answer is judged by the provider-level postcondition below
        def residual_function(matrix, data):
            FAILPOINT["calls"] += 1
            if FAILPOINT["arm"] is not None and FAILPOINT["calls"] == FAILPOINT["arm"]:
                FAILPOINT["arm"] = None
                FAILPOINT["fired"] += 1
                rec.count("solver_faults_injected")
                raise RuntimeError("Maximum number of iterations reached. (injected)")
            return fn(matrix, data)

        return residual_function

    ep.SUPPORTED_RESIUDAL_FUNCTIONS["variable_projection"] = with_failpoint(vp.residual_variable_projection)
    ep.SUPPORTED_RESIUDAL_FUNCTIONS["non_negative_least_squares"] = with_failpoint(nn.residual_nnls)
    # names imported into estimation_provider
    ep.residual_variable_projection = vp.residual_variable_projection
    ep.residual_nnls = nn.residual_nnls

    def cond_provider(self, matrix, data, result):
        rec.count("contract:calculate_residual")
        if log is not None:
            kind = "nnls" if self.group.residual_function == "non_negative_least_squares" else "vp"
            log.append(("provider:" + kind, np.array(matrix, copy=True), np.array(data, copy=True), np.array(result[0], copy=True), np.array(result[1], copy=True), None))
        return True

    ensure(ep.EstimationProvider, "calculate_residual", cond_provider, rec)


# ---------------------------------------------------------------- generators
MATRIX_CLASSES = ["gauss", "spectrum", "kinetic", "kinetic_irf", "oscillation", "stacked", "colscaled"]
DATA_CLASSES = ["colspace", "colspace_mixed", "orthogonal", "generic", "negative_needed", "generic_scaled", "tiny"]
LAYOUTS = ["C", "F", "strided", "slice3d", "transposed"]


def gen_matrix(rng, cls, m, n):
    from scipy.special import erfc

    if cls == "gauss":
        return rng.standard_normal((m, n))
    if cls == "spectrum":
        kappa = 10.0 ** rng.choice([0, 2, 4, 6, 8, 10])
        U, _ = np.linalg.qr(rng.standard_normal((m, n)))
        V, _ = np.linalg.qr(rng.standard_normal((n, n)))
        s = kappa ** (-np.arange(n) / max(n - 1, 1)) if n > 1 else np.ones(1)
        return (U * s) @ V.T
    if cls in ("kinetic", "kinetic_irf", "stacked"):
        ratio = rng.choice([1.001, 1.01, 1.1, 1.5, 2.0, 10.0, 1e3])
        k0 = 10.0 ** rng.uniform(-2, 0)
        ks = k0 * ratio ** np.arange(n)
        tmax = rng.uniform(3, 30) / ks.min()
        t = np.sort(rng.uniform(0, 1, m)) ** rng.choice([1.0, 2.0, 3.0]) * tmax
        if cls == "kinetic":
            return np.exp(-np.outer(t, ks))
        mu, sg = 0.1 * tmax * rng.uniform(0, 1), 10.0 ** rng.uniform(-2, 0) / ks.max()
        t = t - 0.15 * tmax

        def conv(t):
            tt = t[:, None] - mu
            with np.errstate(over="ignore", invalid="ignore"):
                a = 0.5 * np.exp(ks * ks * sg * sg / 2 - ks * tt) * erfc((ks * sg * sg - tt) / (sg * np.sqrt(2)))
            return np.nan_to_num(a, nan=0.0, posinf=0.0)

        if cls == "kinetic_irf":
            return conv(t)
        m1 = max(n, m // 2)
        A1 = conv(t[:m1])
        A2 = np.exp(-np.outer(np.abs(t[m1:]), ks)) * 10.0 ** rng.uniform(-2, 2)
        w = 10.0 ** rng.uniform(-1, 1, m)
        return np.vstack([A1, A2]) * w[:, None]
    if cls == "oscillation":
        t = np.sort(rng.uniform(0, 10, m))
        cols = []
        while len(cols) < n:
            g, w = rng.uniform(0.05, 1), rng.uniform(0.5, 20)
            cols.append(np.exp(-g * t) * np.cos(w * t))
            cols.append(np.exp(-g * t) * np.sin(w * t))
        return np.array(cols[:n]).T
    if cls == "colscaled":
        return rng.standard_normal((m, n)) * 10.0 ** rng.uniform(-3, 3, n)
    raise ValueError(cls)


def gen_data(rng, cls, A):
    m, n = A.shape
    if cls == "colspace":
        return A @ rng.uniform(0.1, 2, n)
    if cls == "colspace_mixed":
        return A @ rng.standard_normal(n)
    z = rng.standard_normal(m)
    if cls == "orthogonal":
        Q, _ = np.linalg.qr(A)
        z = z - Q @ (Q.T @ z)
        return z - Q @ (Q.T @ z)
    if cls == "generic":
        return A @ rng.uniform(0.1, 2, n) + 0.1 * z * np.linalg.norm(A) / np.sqrt(m)
    if cls == "negative_needed":
        c = rng.standard_normal(n)
        c[rng.integers(n)] = -abs(c[0]) - 0.5
        return A @ c + 0.05 * z * np.linalg.norm(A) / np.sqrt(m)
    if cls == "generic_scaled":
        return (A @ rng.standard_normal(n) + 0.1 * z) * 10.0 ** rng.choice([-10, -6, -3, 3, 10, 30, 100])
    if cls == "tiny":
        return (A @ rng.uniform(0.1, 2, n) + 0.1 * z) * 10.0 ** rng.choice([-16, -14, -13, -20])
    raise ValueError(cls)


def layout(rng, kind, A, y):
    m, n = A.shape
    if kind == "C":
        return np.ascontiguousarray(A), np.ascontiguousarray(y)
    if kind == "F":
        return np.asfortranarray(A), y.copy()
    if kind == "strided":
        big = np.zeros((2 * m, n + 3))
        big[::2, 1 : n + 1] = A
        Y = np.zeros((m, 5))
        Y[:, 2] = y
        return big[::2, 1 : n + 1], Y[:, 2]
    if kind == "slice3d":
        M3 = rng.standard_normal((3, m, n))
        M3[1] = A
        Y = rng.standard_normal((m, 4))
        Y[:, 1] = y
        return M3[1, :, :], Y[:, 1]
    if kind == "transposed":
        return np.ascontiguousarray(A.T).T, y
    raise ValueError(kind)


# ---------------------------------------------------------------- shards
def plan(tier, seed):
    nd = {"quick": 14, "thorough": 28}[tier]
    per = {"quick": 1500, "thorough": 12000}[tier]
    specs = [{"mode": "direct", "shard": i, "n": per} for i in range(nd)]
    ni = {"quick": 2, "thorough": 4}[tier]
    specs += [{"mode": "insitu", "shard": 100 + i, "n": {"quick": 24, "thorough": 120}[tier]} for i in range(ni)]
    return specs


def one_direct(rng, rec, log, case=None):
    import glotaran.optimization.estimation_provider as ep

    if case is None:
        n = int(rng.integers(1, 9))
        m = int(n + rng.choice([0, 1, 2, 5, 20, 60, 150, 400 - n]))
        case = {
            "fn": str(rng.choice(["vp", "nnls"])),
            "n": n,
            "m": m,
            "matrix": str(rng.choice(MATRIX_CLASSES)),
            "data": str(rng.choice(DATA_CLASSES)),
            "layout": str(rng.choice(LAYOUTS)),
            "sub": int(rng.integers(2**31)),
        }
    sub = np.random.default_rng(case["sub"])
    A = gen_matrix(sub, case["matrix"], case["m"], case["n"])
    if not np.isfinite(A).all():
        rec.skip("non-finite generated matrix")
        return
    sv = np.linalg.svd(A, compute_uv=False)
    kappa = float(sv[0] / sv[-1]) if sv[-1] > 0 else float("inf")
    if not kappa <= KAPPA_MAX:
        rec.skip("kappa > 1e10 (outside property)")
        return
    y = gen_data(sub, case["data"], A)
    Al, yl = layout(sub, case["layout"], A, y)
    fn = ep.SUPPORTED_RESIUDAL_FUNCTIONS["variable_projection" if case["fn"] == "vp" else "non_negative_least_squares"]
    del log[:]
    try:
        x, r = fn(Al, yl)
    except Exception as e:  # noqa
        pred = f13_predicate(A, y, kappa) if case["fn"] == "nnls" else {}
        finding = None
        if case["fn"] == "nnls" and any(pred.values()):
            from scipy.optimize import nnls

            try:
                nnls(Al, yl)
            except Exception as e2:  # noqa
                finding = "F13" if type(e2) is type(e) and str(e2) == str(e) else None
        rec.violation(f"{'F13:' if finding else ''}{case['fn']}:raises", dict(case, kappa=kappa, regime=pred), f"{type(e).__name__}: {e}", finding)
        rec.case(None, False)
        return
    if not log:
        rec.count("contract_bypassed")
    ctx, bad = report(case["fn"], A, y, x, r, rec, case, kappa, refs=(Al, yl))
    nr, nf = np.linalg.norm(r), np.linalg.norm(y - r)
    nontrivial = nr > 1e-8 * np.linalg.norm(y) and nf > 1e-8 * np.linalg.norm(y)
    mb = 0 if case["m"] == case["n"] else 1 if case["m"] < case["n"] + 10 else 2 if case["m"] < 100 else 3
    sig = (case["fn"], case["n"], mb, int(np.log10(kappa) // 2), case["matrix"], case["data"], case["layout"])
    if case["fn"] == "nnls" and "n_active" in ctx:
        rec.count("nnls_with_active_constraint" if 0 < ctx["n_active"] < case["n"] else "nnls_all_or_none_active")
    rec.case(sig, bool(nontrivial), sample=dict(case, kappa=kappa), features=[f"{case['fn']}|{case['matrix']}", f"kappa=1e{int(np.log10(kappa))}"])


def run_shard(spec, rec):
    log = []
    attach(rec, log)
    rng = rng_for(spec)
    if spec["mode"] == "direct":
        edge_cases(rec, rng)
        for _ in range(spec["n"]):
            one_direct(rng, rec, log)
    else:
        insitu(spec, rec, log, rng)


def edge_cases(rec, rng):
    """A matrix without columns (every clp of an index removed by constraints / relations) has full column rank
    vacuously: the minimiser is the empty clp vector and the residual is the data."""
    import glotaran.optimization.estimation_provider as ep

    for name, fn in ep.SUPPORTED_RESIUDAL_FUNCTIONS.items():
        for m in (1, 2, 7, 40):
            y = rng.standard_normal(m)
            for A in (np.zeros((m, 0)), np.zeros((m, 0), order="F")):
                ctx = {"fn": name, "m": m, "n": 0}
                rec.count("empty_matrix_cases")
                try:
                    clp, res = fn(A, y.copy())
                except Exception as e:  # noqa
                    rec.violation(f"{name}:empty-matrix:raises", ctx, f"matrix with 0 columns: {type(e).__name__}: {str(e)[:150]}")
                    break
                if np.asarray(clp).size != 0 or not np.array_equal(np.asarray(res), y):
                    rec.violation(f"{name}:empty-matrix:residual", ctx, f"matrix with 0 columns: clp {np.asarray(clp).tolist()}, residual != data")
                    break


def insitu(spec, rec, log, rng):
    """Real optimisations with the contract on: every internal (matrix, data) pair is certified."""
    from vf.gen.simple import random_decay_scheme
    from glotaran.optimization.optimize import optimize

    from vf.gen import schemes as S

    S.model_class()
    targeted = targeted_cases() if spec["shard"] == 100 else []
    for i in range(spec["n"] + 2 * len(targeted)):
        if i >= spec["n"]:
            # hand-built reductions (odd i: the result-level identity runs too)
            if (i - spec["n"]) % 2 == 0:
                continue
            case = targeted[(i - spec["n"]) // 2]
        if i % 2:
            # harness scheme space of C02: weighted / stacked (linked) / reduced / Kronecker matrices
            if i < spec["n"]:
                case = S.jsonable_case(S.gen_case(rng))
            for g in case["groups"]:
                if any(d.get("global_megacomplex") for d in case["datasets"] if d["group"] == g) and case["groups"][g]["link_clp"]:
                    case["groups"][g]["link_clp"] = None
            scheme = S.build_scheme(case, maximum_number_function_evaluations=3)
            f = case["features"]
            desc = {"kind": "harness-scheme", "n_comp": len(case["megacomplexes"]["m1"]["labels"]), "irf": False,
                    "residual_function": "nnls" if f.get("nnls") else "vp", "n_datasets": f.get("n_datasets"), "linked": f.get("link_clp"),
                    "features": {k: f[k] for k in ("weights", "axes", "full_model", "index_dependent") if k in f}}
        else:
            desc, scheme = random_decay_scheme(rng)
        del log[:]
        from vf.core import CaseTimeout, time_limit

        if i % 5 == 4 and i < spec["n"]:
            try:
                with time_limit(60):
                    retry_after_fault(scheme, rng, rec, log, desc)
            except (Exception, CaseTimeout) as e:  # noqa
                rec.skip(f"retry-after-fault scenario not applicable: {type(e).__name__}")
            FAILPOINT["arm"] = None
            del log[:]

        FAILPOINT["calls"] = 0
        FAILPOINT["arm"] = int(rng.integers(1, 60)) if (i % 3 == 0 and i < spec["n"]) else None
        injected = False
        result = None
        try:
            with time_limit(60):
                result = optimize(scheme, verbose=False, raise_exception=True)
        except (Exception, CaseTimeout) as e:  # noqa
            injected = "(injected)" in str(e)
            if not injected:
                rec.note(f"insitu optimisation raised {type(e).__name__}: {e}")
                rec.skip("insitu optimisation raised")
                FAILPOINT["arm"] = None
                continue
        FAILPOINT["arm"] = None
        if result is not None and i % 2:
            # at the level of the RESULT: the clps reported for the FULL (unreduced) matrix - after constraints and
            # relations were undone - must still give residual = data - matrix @ clp, index by index (oracle of C03)
            from vf.props import c03

            try:
                for mech, detail in c03.check_result(case, result, rec, case)[:2]:
                    rec.violation(f"insitu:result-identity:{mech}", dict(desc, insitu=True, level="result"), detail)
                rec.count("insitu_results_checked")
            except Exception as e:  # noqa
                rec.skip(f"result-level identity not applicable: {type(e).__name__}")
        solves = [l for l in log if not l[0].startswith("provider:")]
        prov = [l for l in log if l[0].startswith("provider:")]
        if len(prov) != len(solves):
            rec.violation("insitu:bypass", desc, f"{len(prov)} provider solves but {len(solves)} contracted residual calls")
        # what calculate_residual HANDS ON must itself carry the certificate for the matrix and data it was given
        # (a retry / fallback inside the provider may not return clps of a different problem)
        # a provider result that IS the contracted solver's result for the same matrix and data has been judged at the
        # solver (with the very array objects, which the F13 bug model needs); only a result that differs - a retry, a
        # fallback, a rescaling inside the provider - is judged here
        last_inner, differing = None, []
        for ent in log:
            if not ent[0].startswith("provider:"):
                last_inner = ent
                continue
            li = last_inner
            same = (li is not None and li[1].shape == ent[1].shape and np.array_equal(li[1], ent[1]) and np.array_equal(li[2], ent[2])
                    and np.array_equal(np.asarray(li[3]), ent[3], equal_nan=True) and np.array_equal(np.asarray(li[4]), ent[4], equal_nan=True))
            if same:
                rec.count("provider_results_identical_to_solver_results")
            else:
                differing.append(ent)
        for pk, A, y, x, r, _ in differing[:200]:
            if A.shape[1] == 0 or not (np.isfinite(A).all() and np.isfinite(y).all()):
                continue
            sv = np.linalg.svd(A, compute_uv=False)
            kap = float(sv[0] / sv[-1]) if sv[-1] > 0 else float("inf")
            if not kap <= KAPPA_MAX:
                continue
            report(pk.split(":")[1], A, y, x, r, rec, dict(desc, insitu=True, level="calculate_residual"), kap, refs=(A, y))
            rec.count("insitu_provider_results_checked")
        step = max(1, len(solves) // 400)
        for kind, A, y, x, r, refs in solves[::step]:
            if A.shape[1] == 0:
                rec.count("insitu_empty_matrix_solves")
                if np.asarray(x).size != 0 or not np.array_equal(np.asarray(r), np.asarray(y)):
                    rec.violation(f"{kind}:empty-matrix:residual", dict(desc, insitu=True), "in-situ matrix with 0 columns: residual != data")
                continue
            sv = np.linalg.svd(A, compute_uv=False)
            kappa = float(sv[0] / sv[-1]) if sv[-1] > 0 else float("inf")
            if not kappa <= KAPPA_MAX:
                rec.skip("insitu kappa > 1e10")
                continue
            report(kind, A, y, x, r, rec, dict(desc, insitu=True), kappa, refs=refs)
            rec.count("insitu_solves_checked")
        rec.case(("insitu", desc["kind"], desc["residual_function"], desc["n_comp"], desc["irf"], str(desc["linked"])), True, sample=desc,
                 features=[f"insitu|{desc['residual_function']}"])


def targeted_cases():
    """Reductions whose shape changes from one global index to the next: two relations / constraints with different
    intervals in one unlinked group (the matrix of index i must not inherit what was applied at index i-1), VP and NNLS."""
    from vf.gen import schemes as S

    out = []
    for nnls in (False, True):
        for linked in (False, True):
            ds = [{"label": f"ds{k + 1}", "group": "g1", "t": [0.0, 0.25, 0.5, 1.0, 1.5, 2.5, 4.0, 6.0, 8.0, 11.0][: 9 + k], "g": [1.0, 2.0, 3.0, 4.0, 5.0, 6.0],
                   "layout": "mg", "megacomplex": ["m1"], "dseed": 700 + k, "id0": 100 * k, "weight": None, "scale": None, "mc_scale": None} for k in range(2)]
            out.append(S.jsonable_case({
                "datasets": ds, "megacomplexes": {"m1": {"labels": ["a", "b", "c", "d"], "rates": ["k.1", "k.2", "k.3", "k.4"], "disp": None}},
                "global_megacomplexes": {}, "groups": {"g1": {"link_clp": linked, "residual_function": "non_negative_least_squares" if nnls else "variable_projection"}},
                "parameters": {"k.1": {"value": 2.1}, "k.2": {"value": 0.7}, "k.3": {"value": 0.22}, "k.4": {"value": 0.05},
                               "rel.1": {"value": 0.6, "vary": False}, "rel.2": {"value": 1.4, "vary": False}},
                "link_tolerance": 0.0, "link_method": "nearest",
                "constraints": [{"type": "zero", "target": "d", "interval": [2.0, 3.2]}],
                "relations": [{"source": "a", "target": "b", "parameter": "rel.1", "interval": [1.0, 3.2]},
                              {"source": "a", "target": "c", "parameter": "rel.2", "interval": [3.0, 5.2]}],
                "penalties": [], "weights": [],
                "features": {"nnls": nnls, "link_clp": linked, "n_datasets": 2, "targeted": "two relations with different intervals", "relations": 2, "constraints": 1}}))
    # linked datasets whose megacomplexes declare the SHARED clp labels in opposite orders (stacking is by label)
    for nnls in (False, True):
        ds = [{"label": f"ds{k + 1}", "group": "g1", "t": [0.0, 0.25, 0.5, 1.0, 1.5, 2.5, 4.0, 6.0, 8.0, 11.0][: 9 + k], "g": [1.0, 2.0, 3.0, 4.0] if k == 0 else [2.0, 3.0, 4.0, 5.0],
               "layout": "mg", "megacomplex": ["m1"] if k == 0 else ["m2"], "dseed": 800 + k, "id0": 100 * k, "weight": None, "scale": None, "mc_scale": None} for k in range(2)]
        out.append(S.jsonable_case({
            "datasets": ds, "megacomplexes": {"m1": {"labels": ["a", "b", "c"], "rates": ["k.1", "k.2", "k.3"], "disp": None},
                                              "m2": {"labels": ["c", "a", "b"], "rates": ["k.3", "k.1", "k.2"], "disp": None}},
            "global_megacomplexes": {}, "groups": {"g1": {"link_clp": True, "residual_function": "non_negative_least_squares" if nnls else "variable_projection"}},
            "parameters": {"k.1": {"value": 2.1}, "k.2": {"value": 0.7}, "k.3": {"value": 0.22}},
            "link_tolerance": 0.0, "link_method": "nearest", "constraints": [], "relations": [], "penalties": [], "weights": [],
            "features": {"nnls": nnls, "link_clp": True, "n_datasets": 2, "targeted": "linked datasets with shared labels in opposite orders"}}))
    return out


def retry_after_fault(scheme, rng, rec, log, desc):
    """Evaluate a dataset group at P0, let the linear solver fail part-way through the evaluation at P1, then evaluate at
    P1 again (what a caller who retries does): every linear solve of the retry must happen and carry its certificate,
    and the group's penalty must equal a fresh group's at P1."""
    from glotaran.optimization.optimizer import Optimizer

    opt = Optimizer(scheme, verbose=False, raise_exception=True)
    p0 = opt._parameters
    group = opt._optimization_groups[0]
    FAILPOINT["calls"], FAILPOINT["arm"] = 0, None
    group.calculate(p0)
    per_eval = FAILPOINT["calls"]
    if per_eval < 2:
        rec.skip("retry-after-fault: fewer than 2 linear solves per evaluation")
        return
    labels, x, _, _ = p0.get_label_value_and_bounds_arrays(exclude_non_vary=True)
    p1 = p0.copy()
    p1.set_from_label_and_value_arrays(labels, x * (1.0 + 0.05 * rng.uniform(0.5, 1.0, len(x))) + 1e-3)
    FAILPOINT["calls"], FAILPOINT["arm"] = 0, int(rng.integers(2, per_eval + 1))
    try:
        group.calculate(p1)
        rec.skip("retry-after-fault: fault point not reached")
        return
    except RuntimeError as e:
        if "(injected)" not in str(e):
            raise
    FAILPOINT["arm"] = None
    del log[:]
    group.calculate(p1)
    pen = np.array(group.get_full_penalty(), copy=True)
    prov = [l for l in log if l[0].startswith("provider:")]
    rec.count("retries_after_solver_fault")
    ctx = dict(desc, scenario="calculate(P0); calculate(P1) fails at a linear solve; calculate(P1) again")
    if len(prov) != per_eval:
        rec.violation("retry-after-fault:solves-missing", ctx, f"the repeated evaluation made {len(prov)} linear solves, a complete evaluation makes {per_eval}")
        return
    fresh = Optimizer(scheme, verbose=False, raise_exception=True)._optimization_groups[0]
    fresh.calculate(p1)
    pen2 = np.asarray(fresh.get_full_penalty())
    if pen.shape != pen2.shape or not np.array_equal(pen, pen2, equal_nan=True):
        d = float(np.nanmax(np.abs(pen - pen2))) if pen.shape == pen2.shape else float("inf")
        rec.violation("retry-after-fault:penalty-differs-from-fresh-evaluation", ctx, f"max difference {d:.3e} (sizes {pen.size} / {pen2.size})")


def replay(case, rec):
    log = []
    attach(rec, log)
    one_direct(None, rec, log, case={k: case[k] for k in ("fn", "n", "m", "matrix", "data", "layout", "sub")})
