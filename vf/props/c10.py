"""C10 - the objective is pure and deterministic; optimize() leaves its inputs unchanged.

1 history purity   random walks of objective evaluations on ONE Optimizer (repeats, returns, evaluations
                   made to raise by a failpoint) vs a FRESH Optimizer evaluated once at the same x: bit equality
2 determinism      optimize(scheme) twice: parameters, history, cost, datasets bit-identical
3 inputs unchanged deep snapshot of the caller's scheme before/after Optimizer(), optimize(), failed runs
4 schedules        child processes: NUMBA_NUM_THREADS x threading layer x repetitions x machine load x chunk size
                   on builtin models that enter every parallel kernel; hashes vs the 1-thread run
5 write-set        every parallel=True numba kernel of glotaran is executed from its Python source with a tracing
                   prange and tracing arrays: write sets of distinct outer iterations disjoint, no cross reads
"""
from __future__ import annotations

import hashlib
import importlib
import inspect
import json
import os
import pkgutil
import subprocess
import sys

import numpy as np

from vf.core import child_env, rng_for, time_limit, CaseTimeout
from vf.gen import schemes as S
from vf.props import c02
from vf.props.c15 import snapshot

LEVEL = "exploration"
RULE = (
    "(1) objective walks of 30 evaluations (random steps, exact repeats, returns to earlier points, injected exceptions in "
    "between) on schemes from the C02 space incl. penalties, relations, linked groups, plus builtin kinetic models; each value "
    "compared bit-for-bit with a fresh Optimizer at the same x.  (2) every scheme optimised twice (3 methods).  (3) snapshots "
    "of parameters / model / data bytes before and after construction, optimisation and failed optimisation.  (4) schedule "
    "children: threads {1,2,4,16} x layers {workqueue, omp} x repetitions, half under 16 busy workers, chunk sizes {0,1,7}, "
    "4 workloads entering all parallel kernels (inconclusive if a kernel or the threading layer was not entered).  (5) write-set "
    "tracing of all parallel=True dispatchers discovered by introspection (a new kernel without a driver => inconclusive).  "
    "Non-trivial: walk revisits a point after >= 2 different ones; schedule case ran >= 1 parallel kernel with >= 2 threads."
)
ASSUMPTIONS = [
    "bit equality is the expectation; a difference below the least-squares rounding bound would be recorded as schedule dependence, a larger one is a violation",
    "the write-set monitor executes dispatcher.py_func, i.e. the same source numba compiles; numba's automatic array-expression parallelisation is covered by (4) only",
]
MIN_NONTRIVIAL = {"quick": 40, "thorough": 300}
DECIDING = ["walk_evaluations_compared", "determinism_pairs", "snapshots_compared", "schedule_children", "schedule_multi_thread_children",
            "write_set_kernels_traced", "failed_evaluations_injected"]
SHARD_TIMEOUT = {"quick": 900, "thorough": 5400}

WALK_KINDS = ["decay_no_irf", "decay_dispersed_irf", "coherent_artifact", "oscillation_no_irf", "decay_multi_gaussian_irf", "spectral_axis_scale", "clp_guide_scaled", "all_scaled", "split_decay"]
KINDS = ["decay_no_irf", "decay_dispersed_irf", "coherent_artifact", "oscillation_no_irf", "decay_multi_gaussian_irf"]
EXPECT_KERNELS = ["calculate_decay_matrix_no_irf", "calculate_decay_matrix_gaussian_irf", "_calculate_coherent_artifact_matrix",
                  "calculate_damped_oscillation_matrix_no_irf"]


def benign(e):
    """Failures that belong to other properties / known findings (non-finite models, scipy NNLS)."""
    import traceback

    if isinstance(e, CaseTimeout):
        return True
    msg = str(e)
    if any(k in msg for k in ("infs or NaNs", "SVD did not converge", "not finite", "is infeasible")):
        return True
    return any(f.filename.endswith("scipy/optimize/_nnls.py") for f in traceback.extract_tb(e.__traceback__))


# ---------------------------------------------------------------- 1: history purity
class Failpoint:
    def __init__(self):
        self.arm = False

    def attach(self):
        from glotaran.optimization.optimization_group import OptimizationGroup

        fp = self
        orig = OptimizationGroup.calculate
        import glotaran.optimization.estimation_provider as EP

        orig_est = EP.EstimationProviderUnlinked.estimate
        orig_estl = EP.EstimationProviderLinked.estimate

        def calculate(self_, parameters):
            if fp.arm == "before":
                fp.arm = False
                raise RuntimeError("vf c10 injected (before group evaluation)")
            return orig(self_, parameters)

        def mk(o):
            def est(self_):
                if fp.arm == "mid":
                    fp.arm = False
                    # let half of the estimation happen, then fail: leaves partially updated caches behind
                    self_._matrix_provider  # noqa: B018
                    raise RuntimeError("vf c10 injected (between matrix calculation and estimation)")
                return o(self_)

            return est

        OptimizationGroup.calculate = calculate
        EP.EstimationProviderUnlinked.estimate = mk(orig_est)
        EP.EstimationProviderLinked.estimate = mk(orig_estl)


def make_optimizer(scheme_builder):
    """Fresh Optimizer whose vector labels are initialised through the public optimize() (1 evaluation)."""
    from glotaran.optimization.optimizer import Optimizer

    scheme = scheme_builder()
    opt = Optimizer(scheme, verbose=False, raise_exception=True)
    first = []
    orig = opt.objective_function

    def recording(x):
        v = orig(x)
        first.append((np.array(x, copy=True), np.array(v, copy=True)))
        return v

    opt.objective_function = recording  # the evaluations optimize() itself makes are part of the history, too
    try:
        opt.optimize()
    finally:
        del opt.objective_function
    opt._vf_first_evaluations = first
    return opt, scheme


def walk(scheme_builder, rec, rng, fp, ctx, T=30):
    import io
    import contextlib

    with contextlib.redirect_stdout(io.StringIO()):
        opt, scheme = make_optimizer(scheme_builder)
    labels, x0, lo, hi = scheme.parameters.get_label_value_and_bounds_arrays(exclude_non_vary=True)
    if len(x0) == 0:
        return False
    # the very first evaluations this optimiser made (inside optimize()) are compared like all later ones: what a process
    # computes first must not differ from what it computes once it is warm
    xs, vals = [a for a, _ in opt._vf_first_evaluations], [b for _, b in opt._vf_first_evaluations]
    revisits = 0
    for t in range(T):
        r = int(rng.integers(6))
        if r == 0 and xs:
            j = int(rng.integers(len(xs)))
            x = xs[j].copy()  # return to an earlier point
            if len({v.tobytes() for v in xs[j + 1:]} - {x.tobytes()}) >= 2:
                revisits += 1
        elif r == 1 and xs:
            x = xs[-1].copy()  # immediate repeat
        else:
            x = x0 + rng.uniform(-0.08, 0.08, len(x0)) * np.maximum(np.abs(x0), 0.1)
            x = np.minimum(np.maximum(x, lo), hi)
        if rng.integers(5) == 0:
            fp.arm = "before" if rng.integers(2) else "mid"
            try:
                opt.objective_function(x + 0.01)
                fp.arm = False
            except RuntimeError:
                rec.count("failed_evaluations_injected")
        try:
            v = np.array(opt.objective_function(x), copy=True)
        except Exception as e:  # noqa
            rec.skip(f"walk evaluation raised {type(e).__name__}")
            continue
        xs.append(x.copy())
        vals.append(v)
    # compare with fresh optimisers (one per distinct x)
    fresh = {}
    worst = None
    for x, v in zip(xs, vals):
        key = x.tobytes()
        if key not in fresh:
            # the reference is an optimiser whose VERY FIRST evaluation is at x (its scheme starts there): one that has
            # evaluated another point before is not fresh with respect to anything remembered from a first evaluation
            def builder_at_x(x=x):
                s = scheme_builder()
                s.parameters.set_from_label_and_value_arrays(labels, x)
                return s

            try:
                with contextlib.redirect_stdout(io.StringIO()):
                    o2, _ = make_optimizer(builder_at_x)
                fe = o2._vf_first_evaluations
                if fe and np.array_equal(fe[0][0], x):
                    fresh[key] = fe[0][1]
                    rec.count("walk_references_first_evaluation_at_x")
                else:
                    # (scipy moved a start on a bound inside, or log / exp of a non-negative parameter changed an ulp)
                    fresh[key] = np.array(o2.objective_function(x), copy=True)
            except Exception as e:  # noqa
                fresh[key] = None
        f = fresh[key]
        if f is None:
            continue
        rec.count("walk_evaluations_compared")
        if f.shape != v.shape or not np.array_equal(f, v, equal_nan=True):
            d = float(np.nanmax(np.abs(f - v))) if f.shape == v.shape else float("inf")
            scale = float(np.nanmax(np.abs(f))) if f.shape == v.shape else 1.0
            if d <= 64 * np.finfo(float).eps * 1e4 * max(scale, 1.0):
                rec.count("rounding_level_history_dependence")
                rec.note(f"rounding-level history dependence {d:.2e}")
                continue
            worst = (d, len(xs))
    if worst:
        rec.violation(f"history-dependent-objective:{ctx.get('tag', '')}", ctx, f"an evaluation differs from a fresh optimiser at the same x by {worst[0]:.3e} (walk of {worst[1]} evaluations)")
    return revisits > 0


# ---------------------------------------------------------------- 2+3: determinism, inputs unchanged
def result_fingerprint(r):
    h = hashlib.sha256()
    for p in r.optimized_parameters.all():
        h.update(p.label.encode())
        h.update(np.float64(p.value).tobytes())
        h.update(np.float64(p.standard_error).tobytes())
    for row in r.parameter_history.parameters:
        h.update(np.asarray(row, dtype=float).tobytes())
    h.update(np.float64(r.cost).tobytes())
    for k in sorted(r.data):
        ds = r.data[k]
        for name in sorted(ds.data_vars):
            if ds[name].dtype.kind in "fiu":
                h.update(name.encode())
                h.update(np.ascontiguousarray(ds[name].values).tobytes())
    return h.hexdigest()


def determinism_and_inputs(case, rec, fp, method):
    from glotaran.optimization.optimize import optimize
    from glotaran.optimization.optimizer import Optimizer

    def build():
        return S.build_scheme(case, maximum_number_function_evaluations=4, optimization_method=method, add_svd=True)

    ctx = dict(case, method=method)
    scheme = build()
    snap0 = snapshot(scheme)
    Optimizer(scheme, verbose=False)
    rec.count("snapshots_compared")
    if snapshot(scheme) != snap0:
        rec.violation("inputs-modified:Optimizer()", ctx, "constructing an Optimizer changed the caller's scheme")
    try:
        with time_limit(60):
            r1 = optimize(scheme, verbose=False, raise_exception=True)
            rec.count("snapshots_compared")
            if snapshot(scheme) != snap0:
                rec.violation(f"inputs-modified:optimize:{method}", ctx, "optimize() changed the caller's parameters / model / data values")
            r2 = optimize(scheme, verbose=False, raise_exception=True)
            r3 = optimize(build(), verbose=False, raise_exception=True)
    except (Exception, CaseTimeout) as e:  # noqa
        if benign(e):
            rec.skip(f"optimisation raised {type(e).__name__} (non-finite model / scipy nnls)")
        else:
            rec.violation(f"optimisation-raises:{type(e).__name__}:{method}", ctx, f"{type(e).__name__}: {str(e)[:200]}")
        return
    rec.count("determinism_pairs", 2)
    f1, f2, f3 = result_fingerprint(r1), result_fingerprint(r2), result_fingerprint(r3)
    if f1 != f2:
        rec.violation(f"nondeterministic:same-scheme-object:{method}", ctx, "optimising the same Scheme object twice gives different results")
    if f1 != f3:
        rec.violation(f"nondeterministic:rebuilt-scheme:{method}", ctx, "optimising an identically rebuilt scheme gives different results")
    # failed optimisation
    fp.arm = "mid"
    import warnings

    try:
        with warnings.catch_warnings():
            warnings.simplefilter("ignore")
            optimize(scheme, verbose=False, raise_exception=False)
    except Exception:  # noqa
        pass
    fp.arm = False
    rec.count("snapshots_compared")
    if snapshot(scheme) != snap0:
        rec.violation(f"inputs-modified:failed-optimize:{method}", ctx, "a failed optimisation changed the caller's scheme")


# ---------------------------------------------------------------- 4: schedules
def run_child(threads, layer, chunk, dseed, loaded, kinds=KINDS, hashseed=0):
    env = child_env({"NUMBA_NUM_THREADS": threads, "NUMBA_THREADING_LAYER": layer, "OMP_NUM_THREADS": threads})
    env["PYTHONHASHSEED"] = str(hashseed)  # str / set iteration order of the child: part of the schedule
    burners = []
    if loaded:
        burners = [subprocess.Popen([sys.executable, "-c", "while True: pass"]) for _ in range(16)]
    try:
        p = subprocess.run([sys.executable, "-m", "vf.c10child", json.dumps({"kinds": kinds, "dseed": dseed, "chunksize": chunk})],
                           env=env, capture_output=True, text=True, timeout=600)
    finally:
        for b in burners:
            b.kill()
    for line in p.stdout.splitlines():
        if line.startswith("VFRESULT "):
            return json.loads(line[9:])
    return {"error": (p.stderr or "")[-800:]}


def schedules(spec, rec):
    dseed = spec["dseed"]
    base = run_child(1, "workqueue", 0, dseed, False)
    if "error" in base:
        rec.note("schedule base child failed: " + base["error"][-300:])
        return
    rec.count("schedule_children")
    for k in EXPECT_KERNELS:
        if base["kernel_calls"].get(k, 0) == 0:
            rec.note(f"parallel kernel {k} was never entered by the schedule workload")
            return
    for threads, layer, chunk, loaded in spec["configs"]:
        out = run_child(threads, layer, chunk, dseed, loaded)
        cfg = {"threads": threads, "layer": layer, "chunksize": chunk, "loaded": loaded, "dseed": dseed}
        if "error" in out:
            if "threading layer" in out["error"] or "omp" in out["error"].lower():
                rec.skip(f"threading layer {layer} unavailable")
            else:
                rec.note("schedule child failed: " + out["error"][-300:])
            continue
        rec.count("schedule_children")
        if out["layer"] == "not-initialised":
            rec.note("threading layer not initialised in a schedule child")
            continue
        if out["threads"] >= 2:
            rec.count("schedule_multi_thread_children")
        rec.features[f"layer={out['layer']}:threads={out['threads']}"] += 1
        for kind in KINDS:
            a, b = base["results"][kind], out["results"][kind]
            if a["hash"] != b["hash"]:
                d = abs(a["norm"] - b["norm"]) / max(abs(a["norm"]), 1e-300)
                if a["n_eval"] == b["n_eval"] and d < 1e-12:
                    rec.count("rounding_level_schedule_dependence")
                    rec.note(f"{kind}: rounding-level schedule dependence ({cfg})")
                else:
                    rec.violation(f"schedule-dependent-objective:{kind}", cfg, f"{kind}: penalty sequence differs from the 1-thread run (|f| {a['norm']!r} vs {b['norm']!r}, evaluations {a['n_eval']} vs {b['n_eval']})")
        rec.case(("schedule", threads, layer, chunk, loaded, dseed), out["threads"] >= 2, sample=cfg if threads == 4 and not loaded else None, features=["schedule"])
    # fresh processes with different string-hash seeds (set / dict-of-set iteration order): a scheme with several dataset
    # groups must give the same penalty sequence, parameters and result order
    ref = None
    for hs in (0, 1, 2, 7, 1234, "random"):
        out = run_child(1, "workqueue", 0, dseed, False, kinds=["multi_group"], hashseed=hs)
        if "error" in out:
            rec.note("hash-seed child failed: " + out["error"][-300:])
            continue
        rec.count("hash_seed_children")
        r = out["results"]["multi_group"]
        if ref is None:
            ref = r
        elif r["hash"] != ref["hash"]:
            rec.violation("hash-seed-dependent-objective:multi_group", {"PYTHONHASHSEED": hs, "dseed": dseed},
                          f"four dataset groups: penalty sequence / parameters / result order differ from the PYTHONHASHSEED=0 process (|f| {ref['norm']!r} vs {r['norm']!r}, first entries {ref['first']} vs {r['first']})")
            break


# ---------------------------------------------------------------- 5: write-set monitor
def discover_dispatchers():
    import glotaran
    from numba.core.registry import CPUDispatcher

    found = {}
    for m in pkgutil.walk_packages(glotaran.__path__, "glotaran."):
        if ".test" in m.name or "deprecation" in m.name or m.name.endswith("conftest") or ".cli" in m.name:
            continue
        try:
            mod = importlib.import_module(m.name)
        except Exception:  # noqa
            continue
        for k, v in vars(mod).items():
            if isinstance(v, CPUDispatcher) and v.py_func.__module__ == mod.__name__:
                found[f"{mod.__name__}.{k}"] = (mod, k, v)
    return found


LOG = []
STACK = []


class Traced(np.ndarray):
    def __new__(cls, arr, ids=None):
        obj = np.asarray(arr).view(cls)
        obj._ids = np.arange(np.asarray(arr).size).reshape(np.asarray(arr).shape) if ids is None else ids
        return obj

    def __array_finalize__(self, obj):
        self._ids = getattr(obj, "_ids", None)

    def __getitem__(self, idx):
        ids = self._ids[idx]
        out = np.asarray(self).__getitem__(idx)
        if isinstance(out, np.ndarray) and out.ndim > 0:
            # a slice that is read as a whole (array expression): log the reads, keep it traced for writes through views
            for i in np.asarray(ids).ravel():
                LOG.append((tuple(STACK), "r", int(i)))
            return Traced(out, ids)
        LOG.append((tuple(STACK), "r", int(ids)))
        return out

    def __setitem__(self, idx, val):
        for i in np.atleast_1d(self._ids[idx]).ravel():
            LOG.append((tuple(STACK), "w", int(i)))
        np.asarray(self).__setitem__(idx, np.asarray(val))

    def __iadd__(self, other):
        for i in np.asarray(self._ids).ravel():
            LOG.append((tuple(STACK), "r", int(i)))
            LOG.append((tuple(STACK), "w", int(i)))
        np.asarray(self).__iadd__(np.asarray(other))
        return self


def traced_prange(*a):
    for i in range(*a):
        STACK.append(i)
        try:
            yield i
        finally:
            STACK.pop()


def trace_kernel(mod, pyfunc, args, substitute=()):
    import numba as nb

    del LOG[:]
    del STACK[:]
    old = nb.prange
    nb.prange = traced_prange
    saved = {n: getattr(mod, n) for n in substitute}
    for n in substitute:
        setattr(mod, n, getattr(mod, n).py_func)
    try:
        pyfunc(*args)
    finally:
        nb.prange = old
        for n, v in saved.items():
            setattr(mod, n, v)
    writers, readers = {}, {}
    for st, rw, i in LOG:
        outer = st[0] if st else None
        (writers if rw == "w" else readers).setdefault(i, set()).add(outer)
    multi = {i: w for i, w in writers.items() if len(w) > 1}
    cross = {i: (readers[i], writers[i]) for i in readers if i in writers and (readers[i] - writers[i])}
    return len(LOG), multi, cross, len({st[0] for st, _, _ in LOG if st})


def write_sets(rec):
    found = discover_dispatchers()
    rates = np.array([0.1, 0.5, 2.0])
    t = np.linspace(-0.5, 1.0, 6)
    drivers = {
        "glotaran.builtin.megacomplexes.decay.util.calculate_decay_matrix_no_irf":
            lambda m, f: (m, f, (Traced(np.zeros((6, 3))), rates, np.abs(t)), (), lambda out: np.zeros((6, 3))),
        "glotaran.builtin.megacomplexes.decay.decay_matrix_gaussian_irf.calculate_decay_matrix_gaussian_irf":
            lambda m, f: (m, f, (Traced(np.zeros((4, 6, 3))), rates, t, np.array([[0.1, 0.3]] * 4) + np.arange(4)[:, None] * 0.05, np.full((4, 2), 0.2),
                                 np.array([1.0, 0.5]), False, 0.0), ("calculate_decay_matrix_gaussian_irf_on_index",), None),
        "glotaran.builtin.megacomplexes.decay.decay_matrix_gaussian_irf.calculate_decay_matrix_gaussian_irf_on_index":
            lambda m, f: (m, f, (Traced(np.zeros((6, 3))), rates, t, np.array([0.1, 0.3]), np.array([0.2, 0.25]), np.array([1.0, 0.5]), False, 0.0), (), None),
        "glotaran.builtin.megacomplexes.coherent_artifact.coherent_artifact_megacomplex._calculate_coherent_artifact_matrix":
            lambda m, f: (m, f, (Traced(np.zeros((4, 6, 3))), np.array([0.1, 0.2, 0.3, 0.4]), np.full(4, 0.3), 4, t, 3), ("_calculate_coherent_artifact_matrix_on_index",), None),
        "glotaran.builtin.megacomplexes.coherent_artifact.coherent_artifact_megacomplex._calculate_coherent_artifact_matrix_on_index":
            lambda m, f: (m, f, (Traced(np.zeros((6, 3))), 0.2, 0.3, t, 3), (), None),
        "glotaran.builtin.megacomplexes.damped_oscillation.damped_oscillation_megacomplex.calculate_damped_oscillation_matrix_no_irf":
            lambda m, f: (m, f, (Traced(np.zeros((6, 4))), np.array([1.0, 2.0]), np.array([0.1, 0.2]), np.abs(t)), (), None),
    }
    for name, (mod, attr, disp) in sorted(found.items()):
        par = bool(disp.targetoptions.get("parallel"))
        rec.features[f"dispatcher:{attr}:parallel={par}"] += 1
        if not par:
            continue
        if name not in drivers:
            rec.note(f"parallel kernel {name} has no write-set driver")
            rec.count("write_set_kernels_without_driver")
            continue
        m, f, args, subst, _ = drivers[name](mod, disp.py_func)
        n_events, multi, cross, n_outer = trace_kernel(m, f, args, subst)
        rec.count("write_set_kernels_traced")
        rec.count("write_set_events", n_events)
        # results equal the compiled kernel
        ref_args = [np.zeros(np.asarray(a).shape) if isinstance(a, Traced) else a for a in args]
        disp(*ref_args)
        if not np.allclose(np.asarray(args[0]), ref_args[0], rtol=1e-12, atol=1e-300):
            rec.violation(f"write-set:pyfunc-differs-from-jit:{attr}", {"kernel": name}, "interpreted kernel source and compiled kernel disagree")
        if multi:
            rec.violation(f"write-set:cell-written-by-several-iterations:{attr}", {"kernel": name}, f"{len(multi)} cells are written by more than one outer prange iteration, e.g. {list(multi.items())[:2]}")
        if cross:
            rec.violation(f"write-set:cross-iteration-read:{attr}", {"kernel": name}, f"{len(cross)} cells are read by an iteration other than the one writing them")
        rec.case(("write-set", attr), n_outer >= 2 or "prange" not in inspect.getsource(disp.py_func), sample={"kernel": name, "events": n_events, "outer_iterations": n_outer}, features=["write-set"])


# ---------------------------------------------------------------- shards
def plan(tier, seed):
    nw = {"quick": 12, "thorough": 28}[tier]
    specs = [{"mode": "walk", "shard": i, "n": {"quick": 6, "thorough": 60}[tier]} for i in range(nw)]
    cfgs = []
    reps = {"quick": 1, "thorough": 5}[tier]
    for rep in range(reps):
        for threads in (2, 4, 16):
            for layer in ("workqueue", "omp"):
                cfgs.append((threads, layer, [0, 1, 7][(rep + threads) % 3], bool((rep + threads // 2) % 2)))
    nsh = {"quick": 3, "thorough": 4}[tier]
    for i in range(nsh):
        specs.append({"mode": "schedule", "shard": 100 + i, "dseed": seed * 10 + i, "configs": cfgs[i::nsh]})
    specs.append({"mode": "writeset", "shard": 200})
    return specs


def run_shard(spec, rec):
    if spec["mode"] == "schedule":
        return schedules(spec, rec)
    if spec["mode"] == "writeset":
        return write_sets(rec)
    S.model_class()
    fp = Failpoint()
    fp.attach()
    rng = rng_for(spec)
    from vf.c10child import build as build_kinetic

    for i in range(spec["n"]):
        case = c02.fix_groups(S.gen_case(rng, features={"nnls": False}, layouts=("mg", "gm", "mg_f", "gm_f")))
        jc = S.jsonable_case(case)

        def builder(jc=jc):
            return S.build_scheme(jc, maximum_number_function_evaluations=1)

        try:
            with time_limit(120):
                nt = walk(builder, rec, rng, fp, dict(jc, tag=c02.mech_tag(jc)))
        except (Exception, CaseTimeout) as e:  # noqa
            if benign(e):
                rec.skip(f"walk raised {type(e).__name__} (non-finite model / scipy nnls)")
            else:
                rec.violation(f"evaluation-sequence-raises:{type(e).__name__}", dict(jc, tag=c02.mech_tag(jc)), f"a sequence of objective evaluations on one optimiser raised {type(e).__name__}: {str(e)[:200]}")
            nt = False
        rec.case(("walk",) + c02.signature(jc), bool(nt), sample=jc if i == 0 else None, features=["walk:harness-scheme"])
        determinism_and_inputs(jc, rec, fp, ["TrustRegionReflection", "Dogbox", "Levenberg-Marquardt"][i % 3] if not any("min" in p or "max" in p for p in jc["parameters"].values()) else ["TrustRegionReflection", "Dogbox"][i % 2])
        if i % 3 == 0:
            kind = WALK_KINDS[(i // 3 + spec["shard"]) % len(WALK_KINDS)]

            def kb(kind=kind):
                s = build_kinetic(kind, 3)
                if s.data["d1"].sizes["time"] >= 1500:
                    s.data["d1"] = s.data["d1"].isel(time=slice(0, 1500, 25))
                s.maximum_number_function_evaluations = 1
                return s

            try:
                with time_limit(120):
                    nt = walk(kb, rec, rng, fp, {"builtin": kind, "tag": kind}, T=14)
            except (Exception, CaseTimeout) as e:  # noqa
                if benign(e) or isinstance(e, CaseTimeout):
                    rec.skip(f"walk raised {type(e).__name__} (non-finite model / scipy nnls / time limit)")
                else:
                    rec.violation(f"evaluation-sequence-raises:{type(e).__name__}:{kind}", {"builtin": kind}, f"a sequence of objective evaluations on one optimiser of the builtin {kind} scheme raised {type(e).__name__}: {str(e)[:200]}")
                nt = False
            rec.case(("walk", kind, i), bool(nt), features=[f"walk:{kind}"])


def replay(case, rec):
    rec.note("C10 cases are re-run by seed: ./check C10 --seed N")
