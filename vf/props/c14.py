"""C14 - simulation and fitting agree: simulated data are reproduced and recovered.

Monitors: recorders on simulate_from_clp / simulate_full_model / MatrixProvider.calculate_dataset_matrix
(the same builder serves simulation and fitting) and the objective recorder of C02.
Oracle: at the generating parameters the recorded objective is zero to rounding and the estimated
clps equal the generating clps / dataset scale (by label); optimisation from the truth stays;
from a <= 20 % perturbation identifiable families return (bounded progress, judged up to the
model's own symmetries; the recovery RATE is the verdict, single local minima are not);
simulated data equal matrix @ clp selected by label; noise seeds are reproducible.
"""
from __future__ import annotations

import numpy as np
import xarray as xr

from vf.core import rng_for, time_limit, CaseTimeout
from vf.props import c02

LEVEL = "exploration"
RULE = (
    "Nine model families (sequential + Gaussian IRF + baseline; parallel without IRF; general K-matrix + dispersed IRF + coherent "
    "artifact; parallel + damped oscillation without / with IRF; full model parallel x spectral shapes; two linked datasets with "
    "dataset scale; three datasets unlinked with shared rates; pfid + sequential) with generating parameters drawn from the physically "
    "meaningful range, random time / spectral coordinates, clp-driven and full-model simulation.  Per case: objective at the truth, "
    "clp recovery by label, optimisation started at the truth, optimisation from a 10-20 % perturbation (max 200 evaluations), "
    "simulate == dataset matrix @ clp with the clp argument's labels permuted, noise seed reproducibility.  Non-trivial: >= 2 free "
    "non-linear parameters; distinct = (family, parameter draw)."
)
ASSUMPTIONS = [
    "'returns to the generating parameters' is bounded progress: within 200 evaluations, up to permutation of rate constants that the model cannot distinguish; "
    "a single run ending in a genuine local minimum is not a violation, a collapse of the recovery rate over the identifiable families is",
    "MatrixProvider.calculate_dataset_matrix is judged by C04-C07 and trusted here for the simulate identity",
]
MIN_NONTRIVIAL = {"quick": 40, "thorough": 400}
DECIDING = ["truth_objectives_checked", "clp_recoveries_checked", "stay_runs", "recovery_runs", "simulate_identities", "noise_checks", "mon:simulate_from_clp"]


def attach(rec, log):
    import glotaran.simulation.simulation as SIM
    from glotaran.optimization.matrix_provider import MatrixProvider
    from vf.instrument import wrap

    c02.attach(rec, log)
    wrap(SIM, "simulate_from_clp", rec=rec, key="mon:simulate_from_clp")
    wrap(SIM, "simulate_full_model", rec=rec, key="mon:simulate_full_model")


IRF_G = {"g": {"type": "gaussian", "center": "c", "width": "w"}}
IRF_D = {"g": {"type": "spectral-gaussian", "center": "c", "width": "w", "dispersion_center": "dc", "center_dispersion_coefficients": ["cd1", "cd2"]}}


def families(rng):
    k = sorted((10.0 ** rng.uniform(-1.6, 0.4, 3)).tolist(), reverse=True)
    while min(k[0] / k[1], k[1] / k[2]) < 2.0:
        k = sorted((10.0 ** rng.uniform(-1.6, 0.4, 3)).tolist(), reverse=True)
    # rate constants are declared non-negative (optimised as logarithms) in half of the draws, as kinetic models usually do
    nn = {"non-negative": True} if rng.integers(2) else {}
    base = [["k1", k[0], dict(nn)], ["k2", k[1], dict(nn)], ["k3", k[2], dict(nn)], ["c", float(rng.uniform(0.0, 0.3))], ["w", float(rng.uniform(0.05, 0.15))], ["dc", 650.0, {"vary": False}],
            ["cd1", float(rng.uniform(0.02, 0.08))], ["cd2", float(rng.uniform(-0.02, 0.02))], ["one", 1.0, {"vary": False}], ["zero", 0.0, {"vary": False}]]
    f, g = float(rng.uniform(15, 60)), float(rng.uniform(0.15, 0.6))
    F = []
    F.append(("seq+irf+baseline", {"megacomplex": {"s": {"type": "decay-sequential", "compartments": ["a", "b", "c"], "rates": ["k1", "k2", "k3"]}, "b": {"type": "baseline", "dimension": "time"}},
                                   "irf": IRF_G, "dataset": {"d": {"megacomplex": ["s", "b"], "irf": "g"}}}, base, {"d": ["a", "b", "c", "d_baseline"]}, False, "sequential"))
    F.append(("parallel no irf", {"megacomplex": {"s": {"type": "decay-parallel", "compartments": ["a", "b", "c"], "rates": ["k1", "k2", "k3"]}}, "dataset": {"d": {"megacomplex": ["s"]}}},
              base, {"d": ["a", "b", "c"]}, False, "parallel"))
    F.append(("general+dispersed irf+artifact", {"megacomplex": {"s": {"type": "decay", "k_matrix": ["km"]}, "a": {"type": "coherent-artifact", "order": 3}},
                                                 "k_matrix": {"km": {"matrix": {("b", "a"): "k1", ("c", "b"): "k2", ("c", "c"): "k3"}}},
                                                 "initial_concentration": {"ic": {"compartments": ["a", "b", "c"], "parameters": ["one", "zero", "zero"]}},
                                                 "irf": IRF_D, "dataset": {"d": {"megacomplex": ["s", "a"], "irf": "g", "initial_concentration": "ic"}}},
              base, {"d": ["a", "b", "c", "coherent_artifact_1_a", "coherent_artifact_2_a", "coherent_artifact_3_a"]}, False, "sequential"))
    F.append(("parallel+oscillation no irf", {"megacomplex": {"s": {"type": "decay-parallel", "compartments": ["a", "b"], "rates": ["k2", "k3"]},
                                                             "o": {"type": "damped-oscillation", "labels": ["o1"], "frequencies": ["f"], "rates": ["g"]}},
                                              "dataset": {"d": {"megacomplex": ["s", "o"]}}}, base + [["f", f], ["g", g]], {"d": ["a", "b", "o1_cos", "o1_sin"]}, False, "parallel"))
    F.append(("parallel+oscillation+irf", {"megacomplex": {"s": {"type": "decay-parallel", "compartments": ["a", "b"], "rates": ["k2", "k3"]},
                                                          "o": {"type": "damped-oscillation", "labels": ["o1"], "frequencies": ["f"], "rates": ["g"]}},
                                           "irf": IRF_G, "dataset": {"d": {"megacomplex": ["s", "o"], "irf": "g"}}}, base + [["f", f], ["g", g]], {"d": ["a", "b", "o1_cos", "o1_sin"]}, False, "parallel"))
    F.append(("full model parallel x spectral", {"megacomplex": {"s": {"type": "decay-parallel", "compartments": ["a", "b"], "rates": ["k1", "k3"]}, "sp": {"type": "spectral", "shape": {"a": "sh1", "b": "sh2"}}},
                                                 "shape": {"sh1": {"type": "gaussian", "amplitude": "amp1", "location": "l1", "width": "w1"},
                                                           "sh2": {"type": "skewed-gaussian", "amplitude": "amp2", "location": "l2", "width": "w2", "skewness": "sk"}},
                                                 "dataset": {"d": {"megacomplex": ["s"], "global_megacomplex": ["sp"], "spectral_axis_scale": 1.01}}},
              base + [["amp1", 3.0, {"vary": False}], ["l1", float(rng.uniform(620, 640))], ["w1", float(rng.uniform(20, 40))], ["amp2", 2.0, {"vary": False}], ["l2", float(rng.uniform(660, 680))],
                      ["w2", float(rng.uniform(20, 30))], ["sk", float(rng.uniform(0.1, 0.4))]], None, True, "parallel"))
    F.append(("full model 3 compartments, shapes declared in rotated order",
              {"megacomplex": {"s": {"type": "decay-parallel", "compartments": ["a", "b", "c"], "rates": ["k1", "k2", "k3"]}, "sp": {"type": "spectral", "shape": {"b": "sh2", "c": "sh3", "a": "sh1"}}},
               "shape": {"sh1": {"type": "gaussian", "amplitude": "amp1", "location": "l1", "width": "w1"},
                         "sh2": {"type": "skewed-gaussian", "amplitude": "amp2", "location": "l2", "width": "w2", "skewness": "sk"},
                         "sh3": {"type": "gaussian", "amplitude": "amp3", "location": "l3", "width": "w3"}},
               "dataset": {"d": {"megacomplex": ["s"], "global_megacomplex": ["sp"]}}},
              base + [["amp1", 3.0, {"vary": False}], ["l1", float(rng.uniform(615, 630))], ["w1", float(rng.uniform(15, 25))], ["amp2", 2.0, {"vary": False}], ["l2", float(rng.uniform(645, 655))],
                      ["w2", float(rng.uniform(15, 25))], ["sk", float(rng.uniform(0.1, 0.4))], ["amp3", 1.5, {"vary": False}], ["l3", float(rng.uniform(672, 688))], ["w3", float(rng.uniform(12, 20))]],
              None, True, "parallel"))
    F.append(("two linked datasets + scale", {"megacomplex": {"s": {"type": "decay-parallel", "compartments": ["a", "b"], "rates": ["k1", "k3"]}}, "dataset_groups": {"default": {"link_clp": True}},
                                              "dataset": {"d1": {"megacomplex": ["s"]}, "d2": {"megacomplex": ["s"], "scale": "sc"}}}, base + [["sc", float(rng.uniform(0.5, 3.0)), {"vary": False}]],
              {"d1": ["a", "b"], "d2": ["a", "b"]}, False, "parallel"))
    F.append(("three linked datasets + scales, overlapping axes",
              {"megacomplex": {"s": {"type": "decay-parallel", "compartments": ["a", "b"], "rates": ["k1", "k3"]}}, "dataset_groups": {"default": {"link_clp": True}},
               "dataset": {"d1": {"megacomplex": ["s"]}, "d2": {"megacomplex": ["s"], "scale": "sc"}, "d3": {"megacomplex": ["s"], "scale": "sc3"}}},
              base + [["sc", float(rng.uniform(1.5, 3.0)), {"vary": False}], ["sc3", float(rng.uniform(0.3, 0.7)), {"vary": False}]],
              {"d1": ["a", "b"], "d2": ["a", "b"], "d3": ["a", "b"]}, False, "parallel"))
    F.append(("single compartment, two unlinked datasets",
              {"megacomplex": {"s": {"type": "decay-parallel", "compartments": ["a"], "rates": ["k2"]}}, "dataset_groups": {"default": {"link_clp": False}},
               "dataset": {"d1": {"megacomplex": ["s"]}, "d2": {"megacomplex": ["s"]}}}, base, {"d1": ["a"], "d2": ["a"]}, False, "parallel"))
    F.append(("parallel, one rate tied to another by an expression",
              {"megacomplex": {"s": {"type": "decay-parallel", "compartments": ["a", "b"], "rates": ["k1", "ke"]}}, "dataset": {"d": {"megacomplex": ["s"]}}},
              base + [["ke", k[0] * 0.2, {"expr": "$k1 * 0.2"}]], {"d": ["a", "b"]}, False, "parallel"))
    F.append(("three unlinked datasets", {"megacomplex": {"s": {"type": "decay-sequential", "compartments": ["a", "b"], "rates": ["k1", "k2"]}}, "dataset_groups": {"default": {"link_clp": False}},
                                          "irf": IRF_G, "dataset": {"d1": {"megacomplex": ["s"], "irf": "g"}, "d2": {"megacomplex": ["s"], "irf": "g"}, "d3": {"megacomplex": ["s"], "irf": "g"}}}, base,
              {"d1": ["a", "b"], "d2": ["a", "b"], "d3": ["a", "b"]}, False, "sequential"))
    F.append(("pfid + sequential", {"megacomplex": {"s": {"type": "decay-sequential", "compartments": ["a", "b"], "rates": ["k1", "k3"]},
                                                    "p": {"type": "pfid", "labels": ["p1"], "frequencies": ["pf"], "rates": ["pg"]}},
                                    "irf": IRF_G, "dataset": {"d": {"megacomplex": ["s", "p"], "irf": "g"}}}, base + [["pf", 648.0], ["pg", -float(rng.uniform(0.3, 1.0))]],
              {"d": ["a", "b", "p1_cos", "p1_sin"]}, False, "sequential"))
    return F


def build_model(spec, params):
    from glotaran.parameter import Parameters
    from vf.gen.simple import all_builtin_model_class

    model = all_builtin_model_class()(**spec)
    used = set(model.get_parameter_labels())
    p = Parameters.from_list([q for q in params if q[0] in used])
    return model, p


def run_family(fam, rng, rec, log, counters):
    from glotaran.model.item import fill_item
    from glotaran.optimization.matrix_provider import MatrixProvider
    from glotaran.optimization.optimize import optimize
    from glotaran.project import Scheme
    from glotaran.simulation import simulate

    name, spec, params, clp_labels, full, sym = fam
    model, p = build_model(spec, params)
    ctx = {"family": name, "parameters": {q.label: q.value for q in p.all()}}
    nt = int(rng.integers(120, 220))
    t = np.sort(np.concatenate([np.linspace(-1, 1, nt // 3), rng.uniform(1.0, 40.0, nt - nt // 3)]))
    if "no irf" in name:
        t = np.sort(np.concatenate([[0.0], rng.uniform(0.0, 40.0, nt - 1)]))
    lam = np.sort(rng.uniform(600, 700, int(rng.integers(6, 14))))
    data, gen_clp = {}, {}
    shared = None
    lam_all = lam
    lam_by = {}
    nds = len(spec["dataset"])
    for di, d in enumerate(spec["dataset"]):
        if "overlapping axes" in name:
            # each dataset sees a window of the common wavelength axis; neighbours overlap partially
            n = lam_all.size
            lo = (di * n) // (nds + 1)
            hi = min(n, lo + (2 * n) // (nds + 1) + 1)
            sel = np.arange(lo, hi)
            lam = lam_all[sel]
        lam_by[d] = lam
        try:
            if full:
                ds = simulate(model, d, p, {"time": t, "spectral": lam})
            else:
                labs = clp_labels[d]
                if shared is None or shared.shape[1] != len(labs) or "overlapping axes" in name:
                    if "overlapping axes" in name:
                        if di == 0:
                            shared_all = rng.uniform(0.5, 2.0, (lam_all.size, len(labs)))
                        shared = shared_all[sel]
                    else:
                        shared = rng.uniform(0.5, 2.0, (lam.size, len(labs)))
                scl = p.get(spec["dataset"][d]["scale"]).value if "scale" in spec["dataset"][d] else 1.0
                # linked datasets share clps (times the dataset scale); clp argument in PERMUTED label order
                perm = rng.permutation(len(labs))
                clp = xr.DataArray((shared * scl)[:, perm], coords=[("spectral", lam), ("clp_label", [labs[i] for i in perm])])
                ds = simulate(model, d, p, {"time": t, "spectral": lam}, clp)
                gen_clp[d] = clp
                # simulate identity: data[:, i] == matrix_i @ clp_i by label
                dm = fill_item(model.dataset[d], model, p)
                mc = MatrixProvider.calculate_dataset_matrix(dm, lam, t)
                mat = np.asarray(mc.matrix)
                worst = 0.0
                for i in range(lam.size):
                    mi = mat[i] if mat.ndim == 3 else mat
                    want = mi @ clp.isel(spectral=i).sel(clp_label=mc.clp_labels).values
                    worst = max(worst, float(np.abs(ds.data.values[:, i] - want).max()))
                rec.count("simulate_identities")
                scale = float(np.abs(ds.data.values).max())
                if not worst <= 1e-13 * max(scale, 1.0):
                    rec.violation("simulate:not-matrix-times-clp-by-label", ctx, f"{d}: simulated data differ from dataset matrix @ clp (labels matched by name) by {worst:.3e}")
                    return False
        except Exception as e:  # noqa
            rec.violation(f"simulate:raises:{type(e).__name__}", ctx, f"{type(e).__name__}: {str(e)[:200]}")
            return False
        if "unlinked datasets" in name and di == 1 and not full:
            # the second dataset arrives the way many files do: global dimension first, with a weight variable.  Weighting
            # noise-free data keeps the residual zero, and the two fits below reuse these very dataset objects
            ds = ds.transpose("spectral", "time")
            ds["weight"] = xr.DataArray(np.round(rng.uniform(0.5, 2.0, ds.data.shape), 3), coords=ds.data.coords)
        data[d] = ds
    snap_data = {d: np.array(v.data.values, copy=True) for d, v in data.items()}
    # noise reproducibility on the first dataset
    d0 = next(iter(spec["dataset"]))
    kw = {} if full else {"clp": gen_clp[d0]}
    lam = lam_by[d0]
    n1 = simulate(model, d0, p, {"time": t, "spectral": lam}, noise=True, noise_std_dev=0.1, noise_seed=123, **kw)
    n2 = simulate(model, d0, p, {"time": t, "spectral": lam}, noise=True, noise_std_dev=0.1, noise_seed=123, **kw)
    n3 = simulate(model, d0, p, {"time": t, "spectral": lam}, noise=True, noise_std_dev=0.1, noise_seed=124, **kw)
    n0 = simulate(model, d0, p, {"time": t, "spectral": lam}, noise=False, **kw)
    rec.count("noise_checks")
    if not np.array_equal(n1.data.values, n2.data.values):
        rec.violation("noise:same-seed-differs", ctx, "two simulations with the same noise_seed differ")
    if np.array_equal(n1.data.values, n3.data.values):
        rec.violation("noise:different-seed-identical", ctx, "different noise seeds give identical data")
    if not np.array_equal(n0.data.values, data[d0].data.values):
        rec.violation("noise:noise-free-not-reproducible", ctx, "noise=False simulation is not reproducible")
    if np.abs(n1.data.values - n0.data.values).std() < 0.05 or np.abs(n1.data.values - n0.data.values).std() > 0.2:
        rec.violation("noise:std-dev", ctx, f"noise std {np.abs(n1.data.values - n0.data.values).std():.3f} for noise_std_dev=0.1")
    # (1) objective at the truth + (2) optimiser stays
    dmax = max(float(np.abs(ds.data.values).max()) for ds in data.values())
    del log[:]
    try:
        with time_limit(120):
            r0 = optimize(Scheme(model=model, parameters=p, data=data, maximum_number_function_evaluations=25, add_svd=False), verbose=False, raise_exception=True)
    except (Exception, CaseTimeout) as e:  # noqa
        rec.violation(f"optimize-at-truth-raises:{type(e).__name__}", ctx, f"{type(e).__name__}: {str(e)[:200]}")
        return False
    pen0 = log[0]["penalty"]
    rec.count("truth_objectives_checked")
    rel = float(np.abs(pen0).max()) / dmax
    rec.slack("objective_at_truth", rel / 1e-10)
    if not rel <= 1e-10:
        rec.violation(f"objective-not-zero-at-truth:{name}", ctx, f"|penalty|_inf / |data|_inf = {rel:.3e} at the generating parameters")
        return False
    free = list(r0.free_parameter_labels)
    drift = max(abs(r0.optimized_parameters.get(k).value - p.get(k).value) / max(abs(p.get(k).value), 1e-3) for k in free)
    rec.count("stay_runs")
    if not drift <= 1e-6:
        rec.violation(f"optimiser-leaves-truth:{name}", ctx, f"started at the generating parameters, ended {drift:.3e} (relative) away after {r0.number_of_function_evaluations} evaluations")
        return False
    # (2b) the same fit interrupted: the model evaluation fails at the third objective call and optimize() reports what it
    # has (raise_exception=False) - that report is still the generating parameter set (finite-difference neighbours at most)
    from glotaran.optimization.optimizer import Optimizer

    orig_obj = Optimizer.objective_function
    ncall = [0]

    def failing_objective(self_, x):
        ncall[0] += 1
        if ncall[0] == 3:
            raise RuntimeError("vf c14 injected: model evaluation failed")
        return orig_obj(self_, x)

    Optimizer.objective_function = failing_objective
    try:
        import warnings

        with time_limit(120), warnings.catch_warnings():
            warnings.simplefilter("ignore")
            ri = optimize(Scheme(model=model, parameters=p, data=data, maximum_number_function_evaluations=25, add_svd=False), verbose=False, raise_exception=False)
    except (Exception, CaseTimeout) as e:  # noqa
        ri = None
        if ncall[0] >= 3 and not isinstance(e, CaseTimeout):
            rec.violation(f"interrupted-fit-at-truth-raises:{type(e).__name__}", ctx, f"{type(e).__name__}: {str(e)[:200]}")
            Optimizer.objective_function = orig_obj
            return False
    finally:
        Optimizer.objective_function = orig_obj
    if ri is not None and ncall[0] >= 3:
        drift_i = max(abs(ri.optimized_parameters.get(k).value - p.get(k).value) / max(abs(p.get(k).value), 1e-3) for k in free)
        rec.count("interrupted_stay_runs")
        if not drift_i <= 1e-6:
            rec.violation(f"interrupted-fit-leaves-truth:{name}", ctx, f"started at the generating parameters and interrupted at the third evaluation, the reported parameters are {drift_i:.3e} (relative) away")
            return False
    if full:
        # full-model simulation pairs every model column with the global column of the same label: the generating
        # coefficient matrix is the identity BY LABEL, whatever order the two megacomplexes declare their labels in
        for d in data:
            est = r0.data[d].clp
            rec.count("clp_recoveries_checked")
            worst = 0.0
            for gl in est.coords["global_clp_label"].values:
                for ml in est.coords["clp_label"].values:
                    worst = max(worst, abs(float(est.sel(global_clp_label=gl, clp_label=ml)) - (1.0 if str(gl) == str(ml) else 0.0)))
            # the stay check admits a relative parameter drift of 1e-6; the coefficients of the Kronecker design react to
            # it with the product of the two condition numbers (a mislabelled coefficient is off by 1)
            try:
                kap = float(np.linalg.cond(np.asarray(r0.data[d].matrix.values, dtype=float))) * float(np.linalg.cond(np.asarray(r0.data[d].global_matrix.values, dtype=float)))
            except Exception:  # noqa
                kap = 1e4
            tol_id = min(1e-2, 1e-6 * max(1.0, kap))
            if not worst <= tol_id:
                rec.violation(f"clp-not-recovered:{name}", ctx, f"{d}: the estimated full-model coefficients differ from the identity by label by {worst:.3e} (tolerance {tol_id:.1e})")
                return False
    if not full:
        for d in data:
            est = r0.data[d].clp
            gen = gen_clp[d]
            sc = float(r0.data[d].attrs["dataset_scale"])
            e = float(np.abs(est.sel(clp_label=gen.clp_label.values).values * sc - gen.values).max())
            rec.count("clp_recoveries_checked")
            if not e <= 1e-8 * float(np.abs(gen.values).max()):
                rec.violation(f"clp-not-recovered:{name}", ctx, f"{d}: estimated clps x dataset scale differ from the generating clps by {e:.3e}")
                return False
    # (3) recovery from a perturbed start
    p2 = p.copy()
    for k in free:
        sgn = float(rng.choice([-1, 1]))
        if k in ("l1", "l2", "l3"):
            # a spectral location is 'moderately perturbed' on the scale of the band width, not of its absolute value
            p2.get(k).value += sgn * float(rng.uniform(0.1, 0.2)) * p.get("w" + k[1]).value
        elif k == "pf":
            p2.get(k).value += sgn * float(rng.uniform(1.0, 3.0))
        else:
            p2.get(k).value *= 1 + float(rng.uniform(0.1, 0.2)) * sgn
    # the perturbed start is a parameter set of its own (built from its specification, not a copy that could still be
    # tied to the generating set)
    from glotaran.parameter import Parameter, Parameters

    p2 = Parameters({q.label: Parameter(**q.as_dict()) for q in p2.all()})
    try:
        with time_limit(240):
            r = optimize(Scheme(model=model, parameters=p2, data=data, maximum_number_function_evaluations=200, add_svd=False), verbose=False, raise_exception=True)
    except (Exception, CaseTimeout) as e:  # noqa
        rec.skip(f"perturbed optimisation raised {type(e).__name__}")
        return True
    rec.count("recovery_runs")
    for d, v in data.items():
        if not np.array_equal(v.data.values, snap_data[d]):
            rec.violation(f"simulated-data-modified-by-fitting:{name}", ctx, f"dataset {d} passed to optimize() was changed in place")
            return False
    got = {k: r.optimized_parameters.get(k).value for k in free}
    want = {k: p.get(k).value for k in free}
    rates = [k for k in free if k in ("k1", "k2", "k3")]
    others = [k for k in free if k not in rates]
    ok_rates = np.allclose(sorted(got[k] for k in rates), sorted(want[k] for k in rates), rtol=1e-3)
    ok_others = all(abs(got[k] - want[k]) <= 1e-3 * max(abs(want[k]), 0.05) for k in others)
    cost_ok = float(r.cost) <= 1e-14 * dmax ** 2 * pen0.size
    counters["recovery_total"] += 1
    rec.count(f"_fam_total:{name}")
    if ok_rates and ok_others:
        counters["recovered"] += 1
        rec.count("recovered")
        rec.count(f"_fam_ok:{name}")
    elif cost_ok:
        rec.count("zero_cost_other_parameters(non-identifiable)")
        counters["recovery_total"] -= 1
    else:
        rec.count("not_recovered(local minimum or evaluation budget)")
        counters["failed"].append({"family": name, "cost": float(r.cost), "termination": str(r.termination_reason)[:40]})
    return True


def plan(tier, seed):
    n = {"quick": 16, "thorough": 32}[tier]
    return [{"shard": i, "rounds": {"quick": 3, "thorough": 16}[tier]} for i in range(n)]


def run_shard(spec, rec):
    log = []
    attach(rec, log)
    rng = rng_for(spec)
    counters = {"recovery_total": 0, "recovered": 0, "failed": []}
    for r in range(spec["rounds"]):
        fams = families(rng)
        # quick tier: each shard runs a rotating subset of the families
        for fi, fam in enumerate(fams):
            if spec.get("tier") == "quick" and (fi + spec["shard"]) % 3 != 0:
                continue
            ok = run_family(fam, rng, rec, log, counters)
            rec.case((fam[0], spec["shard"], r), bool(ok), sample={"family": fam[0], "parameters": {q[0]: q[1] for q in fam[2]}} if r == 0 and fi < 2 else None,
                     features=[f"family={fam[0]}"])
    rec.counters["_recovery_total"] += counters["recovery_total"]
    rec.counters["_recovered"] += counters["recovered"]
    for f in counters["failed"][:3]:
        rec.note(f"not recovered: {f}")


def post_verdict(counters, tier):
    """Cross-shard verdict on bounded progress: per family, at least a quarter of the perturbed starts must return (clean tree: 65-100 %; a broken optimiser: ~0 %)."""
    out = []
    for k, total in counters.items():
        if k.startswith("_fam_total:"):
            fam = k.split(":", 1)[1]
            ok = counters.get(f"_fam_ok:{fam}", 0)
            if total >= 8 and ok < 0.25 * total:
                out.append({"mech": f"recovery-rate-collapsed:{fam}", "case": {"family": fam, "recovered": ok, "runs": total},
                            "detail": f"family '{fam}': only {ok} of {total} moderately perturbed starts returned to the generating parameters within 200 evaluations"})
    return out


def replay(case, rec):
    rec.note("C14 cases are regenerated by seed: ./check C14 --seed N")
