"""C13 - fit statistics are consistent with each other and with the reported data.

Monitors: recorder on Optimizer.create_result and calculate_covariance_matrix_and_standard_errors
(arguments: the Jacobian and RMSE actually used), objective recorder of C02 for the re-evaluation.
Oracle: formulae of the statement evaluated from the result's own datasets + the independent
reference objective (penalties, number of clps).
"""
from __future__ import annotations

import numpy as np

from vf.core import rng_for, time_limit, CaseTimeout
from vf.gen import schemes as S
from vf.props import c02
from vf.ref import objective as O

LEVEL = "exploration"
RULE = (
    "Real optimisations (3-8 function evaluations, noisy data) over the C02 scheme space with TrustRegionReflection, Dogbox and "
    "(unbounded) Levenberg-Marquardt, with/without weights, penalties, constraints, relations, linked/unlinked/auto groups, one or "
    "two groups, full models.  For every successful Result: number_of_residuals, chi_square (from the result datasets' "
    "(weighted) residuals + reference penalties), cost = chi_square/2 = 0.5|objective(x_opt)|^2 re-evaluated by a fresh optimiser, "
    "number_of_clps (reference count after constraints/relations per (aligned) index), degrees_of_freedom, reduced chi-square, "
    "RMSE, per-dataset (weighted) RMSE, number_of_free_parameters = len(free_parameter_labels) = jacobian.shape[1], covariance "
    "symmetric / PSD / equal to the pseudo-inverse of J^T J from the oracle's own SVD (conditioning-aware), standard errors = RMSE "
    "* sqrt(diag) (log-space mapping for non-negative parameters), additional_penalty = reference penalties at the optimum. "
    "Non-trivial: RMSE > 1e-3 and >= 1 optional feature; distinct = feature signature + method."
)
ASSUMPTIONS = c02.ASSUMPTIONS + [
    "for non-negative parameters the documented mapping value*(exp(e)-1), capped at |value| when e >= |log value|, is accepted",
    "singular values within a factor 1e3 of the eps cut-off make the pseudo-inverse identity undecidable (skipped, symmetry and PSD still required)",
]
MIN_NONTRIVIAL = {"quick": 50, "thorough": 300}
DECIDING = ["mon:create_result", "mon:covariance", "results_checked"]

METHODS = ["TrustRegionReflection", "Dogbox", "Levenberg-Marquardt"]


def attach(rec, cap):
    from glotaran.optimization.optimizer import Optimizer
    from vf.instrument import wrap

    def after_cov(a, k, out, exc, tok):
        if exc is None:
            cap["cov_args"] = (np.array(a[1], copy=True), float(a[2]))

    wrap(Optimizer, "create_result", rec=rec, key="mon:create_result")
    wrap(Optimizer, "calculate_covariance_matrix_and_standard_errors", after=after_cov, rec=rec, key="mon:covariance")


def rel(a, b):
    """relative difference; inf (never 'within tolerance') when either side is NaN"""
    if a != a or b != b:
        return 0.0 if (a != a and b != b) else float("inf")
    return abs(a - b) / max(abs(a), abs(b), 1e-300)


def check_stats(case, result, rec, log, cap, scheme=None):
    bad = []
    data = c02.case_data(case)
    pv = O.parameter_values(case, {p.label: float(p.value) for p in result.optimized_parameters.all()})
    groups = [g for g in case["groups"] if O.group_datasets(case, g)]
    # reference per group; automatic groups: the choice that reproduces the recorded objective length
    ndata = sum(len(d["t"]) * len(d["g"]) for d in case["datasets"])
    cands = [{}]
    for g in groups:
        link = case["groups"][g]["link_clp"]
        opts = [link] if link is not None else ([True, False] if O.linkable(case, g) else [False])
        cands = [dict(c, **{g: o}) for c in cands for o in opts]
    refs = []
    for choice in cands:
        try:
            refs.append((choice, {g: O.evaluate_group(case, g, pv, data, bool(choice[g])) for g in groups}))
        except Exception as e:  # noqa
            rec.skip(f"oracle: {str(e)[:50]}")
    if not refs:
        return None
    if any(r["kappa"] > 1e8 or not np.isfinite(r["kappa"]) for _, rr in refs for r in rr.values()):
        rec.skip("reference ill-conditioned (kappa > 1e8)")
        return None
    if any(r.get("nnls") and (r["kappa"] ** 2 >= 64 * 20 or r["f13"] or r["huge"]) for _, rr in refs for r in rr.values()):
        rec.skip("NNLS group in F13 regime")
        return None
    # chi-square from the result's own datasets
    ssq = 0.0
    for ds in case["datasets"]:
        rd = result.data[ds["label"]]
        r = rd["weighted_residual"].values if "weighted_residual" in rd else rd["residual"].values
        ssq += float(np.sum(r ** 2))
        size = r.size
        want = float(np.sqrt(np.sum(rd["residual"].values ** 2) / size))
        if rel(float(rd.attrs["root_mean_square_error"]), want) > 1e-12:
            bad.append(("dataset-rmse", f"{ds['label']}: root_mean_square_error {rd.attrs['root_mean_square_error']} != {want}"))
        wantw = float(np.sqrt(np.sum(r ** 2) / size))
        if rel(float(rd.attrs["weighted_root_mean_square_error"]), wantw) > 1e-12:
            bad.append(("dataset-weighted-rmse", f"{ds['label']}: weighted_root_mean_square_error {rd.attrs['weighted_root_mean_square_error']} != {wantw}"))
    verdicts = []
    for choice, rr in refs:
        b = []
        pens = [p for g in groups for p in rr[g]["penalties"]]
        nres = ndata + len(pens)
        if result.number_of_residuals != nres:
            b.append(("number_of_residuals", f"{result.number_of_residuals} != data points {ndata} + penalties {len(pens)}"))
        chi = ssq + float(np.sum(np.square(pens)))
        # penalties are functions of the clps: conditioning of the linear solves enters (kappa <= 1e8 admitted above)
        kmax = max(r["kappa"] for r in rr.values())
        # (equal-area penalties are differences of sums of clps: as in C02 their error scales with kappa^2)
        if rel(result.chi_square, chi) > max(1e-9, 64 * np.finfo(float).eps * (min(kmax, 1e150) ** 2 if pens else kmax)):
            b.append(("chi_square", f"chi_square {result.chi_square!r} != sum of squared (weighted) residuals of the result datasets + squared penalties {chi!r}"))
        # internal consistency, free of the reference's conditioning: the reported penalties themselves
        ap_ = [float(x) for grp in (result.additional_penalty or []) for x in np.atleast_1d(grp)]
        if len(ap_) == len(pens) and np.all(np.isfinite(ap_)):
            chi_own = ssq + float(np.sum(np.square(ap_)))
            if rel(result.chi_square, chi_own) > 1e-9:
                b.append(("chi_square", f"chi_square {result.chi_square!r} != sum of squared (weighted) residuals of the result datasets + squared reported penalties {chi_own!r}"))
        nclp = sum(rr[g]["n_clps"] for g in groups)
        if result.number_of_clps != nclp:
            b.append(("number_of_clps", f"{result.number_of_clps} != reference count {nclp} (coefficients left after constraints/relations per index)"))
        ap = result.additional_penalty
        got = [float(x) for grp in (ap or []) for x in np.atleast_1d(grp)]
        if len(got) != len(pens) or any(rel(a, b_) > 1e-6 and abs(a - b_) > 1e-9 for a, b_ in zip(sorted(got), sorted(pens))):
            b.append(("additional_penalty", f"additional_penalty {sorted(got)} != penalties at the optimised parameters {sorted(pens)}"))
        verdicts.append(b)
    best = min(verdicts, key=len)
    bad.extend(best)
    # cost
    if rel(float(result.cost), result.chi_square / 2) > 1e-9:
        bad.append(("cost", f"cost {float(result.cost)!r} != chi_square/2 {result.chi_square / 2!r}"))
    cov_args = cap.get("cov_args")
    # re-evaluation by a fresh optimiser at the optimised parameters
    from glotaran.optimization.optimize import optimize
    from glotaran.project import Scheme

    del log[:]
    try:
        s2 = S.build_scheme(case, maximum_number_function_evaluations=1, optimization_method=case.get("method", "TrustRegionReflection"))
        s2 = Scheme(model=s2.model, parameters=result.optimized_parameters.copy(), data=s2.data,
                    clp_link_tolerance=s2.clp_link_tolerance, clp_link_method=s2.clp_link_method,
                    maximum_number_function_evaluations=1, add_svd=False, optimization_method=s2.optimization_method)
        with time_limit(30):
            optimize(s2, verbose=False, raise_exception=True)
        pen0 = log[0]["penalty"]
        c0 = 0.5 * float(pen0 @ pen0)
        if rel(c0, float(result.cost)) > 1e-9:
            bad.append(("cost-reevaluated", f"cost {float(result.cost)!r} != 0.5|objective(x_opt)|^2 = {c0!r} from a fresh optimiser"))
        if pen0.size != result.number_of_residuals:
            bad.append(("number_of_residuals-reevaluated", f"{result.number_of_residuals} != size of the re-evaluated objective {pen0.size}"))
    except (Exception, CaseTimeout) as e:  # noqa
        rec.skip(f"re-evaluation failed: {type(e).__name__}")
    # ... and by a fresh optimiser on the data objects the caller handed in (what recreate / verify / a second fit see)
    if scheme is not None:
        del log[:]
        try:
            s3 = Scheme(model=scheme.model, parameters=result.optimized_parameters.copy(), data=scheme.data,
                        clp_link_tolerance=scheme.clp_link_tolerance, clp_link_method=scheme.clp_link_method,
                        maximum_number_function_evaluations=1, add_svd=False, optimization_method=scheme.optimization_method)
            with time_limit(30):
                optimize(s3, verbose=False, raise_exception=True)
            pen1 = log[0]["penalty"]
            c1 = 0.5 * float(pen1 @ pen1)
            rec.count("reevaluations_on_callers_data")
            if rel(c1, float(result.cost)) > 1e-9:
                bad.append(("cost-reevaluated-on-callers-data", f"cost {float(result.cost)!r} != 0.5|objective(x_opt)|^2 = {c1!r} re-evaluated on the scheme's own data objects"))
        except (Exception, CaseTimeout) as e:  # noqa
            rec.skip(f"re-evaluation on the caller's data failed: {type(e).__name__}")
    # derived statistics
    nfree = result.number_of_free_parameters
    if not (nfree == len(result.free_parameter_labels) == np.shape(result.jacobian)[1]):
        bad.append(("free-parameter-count", f"{nfree}, {len(result.free_parameter_labels)} labels, jacobian {np.shape(result.jacobian)}"))
    want_free = sorted(O.free_labels(case))
    if sorted(result.free_parameter_labels) != want_free:
        bad.append(("free-parameter-labels", f"{result.free_parameter_labels} != {want_free}"))
    dof = result.number_of_residuals - nfree - result.number_of_clps
    if result.degrees_of_freedom != dof:
        bad.append(("degrees_of_freedom", f"{result.degrees_of_freedom} != {dof}"))
    if dof > 0:
        if rel(result.reduced_chi_square, result.chi_square / dof) > 1e-12:
            bad.append(("reduced_chi_square", f"{result.reduced_chi_square} != {result.chi_square / dof}"))
        if rel(result.root_mean_square_error, np.sqrt(result.chi_square / dof)) > 1e-12:
            bad.append(("rmse", f"{result.root_mean_square_error} != sqrt(reduced chi-square)"))
    # covariance
    J = np.asarray(result.jacobian, dtype=float)
    Cv = np.asarray(result.covariance_matrix, dtype=float)
    if Cv.shape != (nfree, nfree):
        bad.append(("covariance-shape", f"{Cv.shape}"))
    elif np.isfinite(J).all() and np.isfinite(Cv).all():
        sym = np.abs(Cv - Cv.T).max() / max(np.abs(Cv).max(), 1e-300)
        if sym > 1e-10:
            bad.append(("covariance-asymmetric", f"relative asymmetry {sym:.2e}"))
        ev = np.linalg.eigvalsh((Cv + Cv.T) / 2)
        if ev.min() < -1e-8 * max(abs(ev.max()), 1e-300):
            bad.append(("covariance-not-psd", f"eigenvalues {ev.tolist()}"))
        sv = np.linalg.svd(J, compute_uv=False)
        eps = np.finfo(float).eps
        s2 = sv ** 2
        near = (s2 > eps / 1e3) & (s2 < eps * 1e3)
        if near.any():
            rec.skip("singular value near the cut-off: pseudo-inverse identity undecidable")
        else:
            U, s, Vt = np.linalg.svd(J, full_matrices=False)
            keep = s ** 2 > eps
            Cref = (Vt[keep].T / (s[keep] ** 2)) @ Vt[keep]
            cond2 = (s[keep].max() / s[keep].min()) ** 2 if keep.any() else 1.0
            tolc = 1e3 * eps * cond2 * max(np.abs(Cref).max(), 1e-300) + 1e-300
            d = np.abs(Cv - Cref).max()
            rec.slack("covariance", d / tolc)
            if d > tolc:
                bad.append(("covariance-not-pinv", f"max deviation {d:.3e} from pinv(J^T J) (tol {tolc:.1e}, cond^2 {cond2:.1e})"))
            # standard errors
            rmse = result.root_mean_square_error
            for j, label in enumerate(result.free_parameter_labels):
                p = result.optimized_parameters.get(label)
                e = rmse * np.sqrt(max(Cv[j, j], 0.0))
                if p.non_negative:
                    # mapped back from log space; the cap |value| is admitted only where the library documents it
                    # (log-space error not below |log value|), with a 1e-9 band around the switch
                    # (the library's log transform maps a value of exactly 1 to log(1 + 1e-10), not 0: its threshold there)
                    lv = abs(np.log(p.value + (1e-10 if p.value == 1 else 0.0))) if p.value > 0 else 0.0
                    # (at the switch itself, e == |log value| - e.g. a zero error of a parameter equal to 1 - both are admitted)
                    adm = ([p.value * (np.exp(e) - 1.0)] if e <= lv * (1 + 1e-9) else []) + ([abs(p.value)] if e >= lv * (1 - 1e-9) else [])
                else:
                    adm = [e]
                if not any(rel(float(p.standard_error), a) < 1e-9 or abs(float(p.standard_error) - a) < 1e-300 for a in adm):
                    bad.append(("standard_error", f"{label}: standard_error {p.standard_error!r} not in {adm} (RMSE * sqrt(cov[{j},{j}]) = {e!r}, non_negative={p.non_negative})"))
        if cov_args is not None:
            Jused, rmse_used = cov_args
            if Jused.shape != J.shape or not np.array_equal(Jused, J) or rel(rmse_used, result.root_mean_square_error) > 1e-12:
                bad.append(("covariance-inputs", "covariance was computed from a different Jacobian / RMSE than the reported ones"))
    return bad


def plan(tier, seed):
    n = {"quick": 16, "thorough": 32}[tier]
    return [{"shard": i, "n": {"quick": 36, "thorough": 600}[tier]} for i in range(n)]


def prepare_case(rng):
    case = c02.fix_groups(S.gen_case(rng, layouts=("mg", "gm", "mg_f", "gm_f")))
    method = METHODS[int(rng.integers(3))]
    case["method"] = method
    if method == "Levenberg-Marquardt":
        for p in case["parameters"].values():
            p.pop("min", None)
            p.pop("max", None)
    case["max_nfev"] = int(rng.integers(3, 9))
    for d in case["datasets"]:
        d["noise"] = 1.0
    return S.jsonable_case(case)


def run_case(jc, rec, log, cap):
    from glotaran.optimization.optimize import optimize

    cap.clear()
    try:
        scheme = S.build_scheme(jc, maximum_number_function_evaluations=jc.get("max_nfev", 5), optimization_method=jc["method"])
        with time_limit(40):
            result = optimize(scheme, verbose=False, raise_exception=True)
    except (Exception, CaseTimeout) as e:  # noqa
        import traceback

        frames = traceback.extract_tb(e.__traceback__)
        if any(f.filename.endswith("scipy/optimize/_nnls.py") for f in frames):
            rec.skip("scipy NNLS failure inside optimisation (F13)")
        elif "infs or NaNs" in str(e) or "SVD did not converge" in str(e) or "Residuals are not finite" in str(e) or isinstance(e, CaseTimeout):
            rec.skip(f"optimisation left the finite domain: {type(e).__name__}")
        else:
            rec.violation(f"raises:{type(e).__name__}", jc, f"{type(e).__name__}: {str(e)[:300]}")
        return None
    if not result.success:
        rec.skip("unsuccessful result")
        return None
    rec.count("results_checked")
    bad = check_stats(jc, result, rec, log, cap, scheme=scheme)
    if bad is None:
        return None
    seen = set()
    for mech, detail in bad:
        if mech not in seen:
            seen.add(mech)
            linked = any(v for v in [jc["groups"][g]["link_clp"] for g in jc["groups"]])
            rec.violation(f"{mech}:{'linked' if linked else 'unlinked-or-auto'}", jc, detail)
    return result


def run_shard(spec, rec):
    log, cap = [], {}
    c02.attach(rec, log)
    attach(rec, cap)
    rng = rng_for(spec)
    S.model_class()
    for i in range(spec["n"]):
        jc = prepare_case(rng)
        result = run_case(jc, rec, log, cap)
        nt = bool(result is not None and result.root_mean_square_error > 1e-3 and c02.nontrivial(jc))
        rec.case(c02.signature(jc) + (jc["method"],), nt, sample=jc if i == 0 else None,
                 features=[f"method={jc['method']}", f"link={jc['features'].get('link_clp')}", f"penalties={jc['features'].get('penalties')}"])


def replay(case, rec):
    log, cap = [], {}
    c02.attach(rec, log)
    attach(rec, cap)
    S.model_class()
    run_case(case, rec, log, cap)
