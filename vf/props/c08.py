"""C08 - interval-scoped constraints, relations, penalties and weights act on their interval.

The affected set S of an item is made observable in the Result of a real (1-evaluation)
optimisation and judged against the admissible sets of vf.ref.intervals:
    Inside(I) <= S <= Nearest(I);   I <= I'  =>  S(I) <= S(I');   only == complement of zero.
Recorders on IntervalItem.applies / get_axis_slice_from_interval / add_model_weight / _get_area
give evidence that the anchored code was reached; the verdict is taken from the result.
"""
from __future__ import annotations

import warnings

import numpy as np

from vf.core import rng_for, time_limit, CaseTimeout
from vf.gen import schemes as S
from vf.ref import intervals as IV
from vf.ref import objective as O

LEVEL = "exploration"
RULE = (
    "Probe schemes (1-2 datasets, linked / unlinked, index-dependent or not, strictly increasing uniform / non-uniform global "
    "axes of 1-12 points) carrying ONE interval-scoped item of each kind {zero, only, relation, equal-area source interval, "
    "equal-area target interval, weight global_interval, weight model_interval} with intervals {finite, on axis points, strictly "
    "between two points, degenerate, half-infinite, infinite, reversed, partly / wholly outside, lists, none}.  The affected set "
    "is read off the Result (clp == 0.0, clp_target == p * clp_source, weight == value, base-4 code 4^i of the area sum in "
    "additional_penalty for noise-free data) and must satisfy Inside <= S <= Nearest; nested interval pairs check monotonicity; "
    "zero/only pairs on the same interval check complementarity; dataset + model weight checks dataset weight wins + exactly "
    "one warning.  Non-trivial: Inside non-empty and not the whole axis, or a bound infinite / outside; distinct = (item kind, "
    "interval class, axis class, linked, index dependence)."
)
ASSUMPTIONS = [
    "generic (noisy) data make unconstrained clps non-zero and unrelated clps not exactly proportional",
    "'nearest axis point' latitude: any point between the points nearest to the two bounds may be affected; ties admit either neighbour",
]
MIN_NONTRIVIAL = {"quick": 100, "thorough": 300}
DECIDING = ["sets_judged", "mon:applies", "mon:get_axis_slice_from_interval", "mon:_get_area", "mon:add_model_weight", "monotonicity_pairs",
            "complement_pairs", "both_weight_cases"]

KINDS = ["zero", "only", "relation", "pen_source", "pen_target", "weight_global", "weight_model"]
IV_CLASSES = ["none", "finite", "on_points", "between", "degenerate_point", "degenerate_between", "left_inf", "right_inf", "inf",
              "reversed", "partly_below", "partly_above", "outside_below", "outside_above", "list"]


def attach(rec):
    import glotaran.optimization.estimation_provider as ep
    from glotaran.model.clp_constraint import OnlyConstraint
    from glotaran.model.interval_item import IntervalItem
    from glotaran.optimization.data_provider import DataProvider
    from vf.instrument import wrap

    wrap(IntervalItem, "applies", rec=rec, key="mon:applies")
    wrap(OnlyConstraint, "applies", rec=rec, key="mon:only.applies")
    wrap(DataProvider, "get_axis_slice_from_interval", rec=rec, key="mon:get_axis_slice_from_interval")
    wrap(DataProvider, "add_model_weight", rec=rec, key="mon:add_model_weight")
    wrap(ep, "_get_area", rec=rec, key="mon:_get_area")


# ---------------------------------------------------------------- generators
def gen_axis(rng, n=None):
    n = int(rng.integers(1, 13)) if n is None else n
    if rng.integers(2):
        return (np.arange(n) * float(rng.choice([1.0, 0.5, 2.5])) + float(rng.integers(-3, 4))).tolist(), "uniform"
    steps = rng.choice([0.25, 0.5, 1.0, 1.5, 3.0], n)
    return np.round(np.cumsum(steps) + float(rng.integers(-3, 4)), 3).tolist(), "nonuniform"


def gen_interval(rng, axis, cls):
    a = np.asarray(axis, dtype=float)
    n = len(a)
    span = max(a[-1] - a[0], 1.0)
    i, j = sorted(int(x) for x in rng.integers(0, n, 2))
    inf = float("inf")

    def mid(k):
        return float((a[k] + a[k + 1]) / 2) if k + 1 < n else float(a[k] + 0.37)

    if cls == "none":
        return None
    if cls == "finite":
        lo, hi = float(a[i] - rng.uniform(0, 0.2)), float(a[j] + rng.uniform(0, 0.2))
        return [lo, hi]
    if cls == "on_points":
        return [float(a[i]), float(a[j])]
    if cls == "between":
        k = int(rng.integers(0, n))
        lo = mid(k)
        return [lo - 0.05, lo + 0.05] if n > 1 else [float(a[0]) + 0.1, float(a[0]) + 0.2]
    if cls == "degenerate_point":
        return [float(a[i]), float(a[i])]
    if cls == "degenerate_between":
        m = mid(int(rng.integers(0, n)))
        return [m, m]
    if cls == "left_inf":
        return [-inf, float(a[j] + rng.choice([0.0, 0.1]))]
    if cls == "right_inf":
        return [float(a[i] - rng.choice([0.0, 0.1])), inf]
    if cls == "inf":
        return [-inf, inf]
    if cls == "reversed":
        r = int(rng.integers(3))
        if r == 0:
            return [float(a[j] + 0.1), float(a[i] - 0.1)]
        if r == 1:
            return [float(a[-1] + span), float(a[i])]  # first element beyond the axis end
        return [inf, float(a[i])]
    if cls == "partly_below":
        return [float(a[0] - span), float(a[j] + 0.1)]
    if cls == "partly_above":
        return [float(a[i] - 0.1), float(a[-1] + span)]
    if cls == "outside_below":
        return [float(a[0] - 2 * span), float(a[0] - 0.6 * span)]
    if cls == "outside_above":
        return [float(a[-1] + 0.6 * span), float(a[-1] + 2 * span)]
    if cls == "list":
        k = [gen_interval(rng, axis, str(rng.choice(["finite", "on_points", "between", "left_inf", "right_inf", "reversed", "outside_above"]))) for _ in range(int(rng.integers(2, 4)))]
        return k
    raise ValueError(cls)


def widen(rng, iv):
    """An interval (list) containing iv."""
    ivs = IV.norm(iv)
    out = []
    for lo, hi in ivs:
        out.append([lo - float(rng.choice([0.0, 0.3, 1.0, 5.0])), hi + float(rng.choice([0.0, 0.3, 1.0, 5.0]))])
    if rng.integers(3) == 0 and len(out) < 3:
        # at most three listed intervals: the base-4 area code of the penalty probes counts a point once per listed
        # interval that reaches it and would carry into the next digit at multiplicity 4
        out.append([ivs[0][1] + 7.0, ivs[0][1] + 9.0])
    return out if (len(out) > 1 or rng.integers(2)) else out[0]


def probe_case(rng, kind, ivcls):
    """One item of `kind` restricted to an interval of class `ivcls`."""
    nds = int(rng.choice([1, 2]))
    linked = bool(nds == 2 and rng.integers(2))
    idxdep = bool(rng.integers(2))
    gaxis, axcls = gen_axis(rng)
    if kind.startswith("pen") and len(gaxis) > 12:
        gaxis = gaxis[:12]
    params = {"k.1": {"value": 1.1}, "k.2": {"value": 0.35}, "k.3": {"value": 0.07}}
    mcs = {"m1": {"labels": ["a", "b", "c"], "rates": ["k.1", "k.2", "k.3"], "disp": "dsp.1" if idxdep else None}}
    if idxdep:
        params["dsp.1"] = {"value": 0.02}
    datasets = []
    id0 = 0
    # datasets of an unlinked group need not share their global axis: in half of those cases the second one starts one
    # point later and reaches one point further (the same interval then covers other index ranges per dataset)
    own_axis = bool(nds == 2 and not linked and len(gaxis) >= 3 and rng.integers(2))
    for d in range(nds):
        nt = int(rng.integers(9, 13))
        t = np.round(np.sort(rng.choice(np.arange(0, 48), nt, replace=False)) * 0.25, 3).tolist()
        g_d = list(gaxis)
        if own_axis and d == 1:
            g_d = list(gaxis[1:]) + [float(np.round(gaxis[-1] + 0.7, 3))]
        datasets.append({"label": f"ds{d + 1}", "group": "g1", "t": t, "g": g_d, "layout": "mg", "megacomplex": ["m1"],
                         "dseed": int(rng.integers(2**31)), "id0": id0, "weight": None, "scale": None, "mc_scale": None})
        id0 += nt * len(g_d)
    target_missing = False
    if nds == 2 and kind in ("zero", "only") and rng.integers(3) == 0:
        # the FIRST dataset of the group does not have the constrained clp at all (label sets differ per dataset);
        # the item must still act on the dataset that has it - at every axis point both share
        mcs["m0"] = {"labels": ["a", "c"], "rates": ["k.1", "k.3"], "disp": "dsp.1" if idxdep else None}
        datasets[0]["megacomplex"] = ["m0"]
        target_missing = True
    case = {"datasets": datasets, "megacomplexes": mcs, "global_megacomplexes": {},
            "groups": {"g1": {"link_clp": linked, "residual_function": "variable_projection"}}, "parameters": params,
            "link_tolerance": 0.0, "link_method": "nearest", "constraints": [], "relations": [], "penalties": [], "weights": [],
            "features": {"kind": kind, "ivcls": ivcls, "axis": axcls, "linked": linked, "idxdep": idxdep, "n_axis": len(gaxis), "target_missing_in_first": target_missing, "own_axis_per_dataset": own_axis}}
    axis_for_iv = gaxis
    if kind == "weight_model":
        axis_for_iv = datasets[0]["t"]
    iv = gen_interval(rng, axis_for_iv, ivcls)
    case["iv"] = iv
    set_item(case, kind, iv, rng)
    return case


def set_item(case, kind, iv, rng=None):
    case["constraints"], case["relations"], case["penalties"], case["weights"] = [], [], [], []
    case["parameters"].pop("rel.1", None)
    case["parameters"].pop("rel.2", None)
    case["parameters"].pop("pen.1", None)
    if kind in ("zero", "only"):
        case["constraints"] = [{"type": kind, "target": "b", "interval": iv}]
    elif kind == "relation":
        case["parameters"]["rel.1"] = {"value": 0.6180339887, "vary": False}
        case["relations"] = [{"source": "a", "target": "c", "parameter": "rel.1", "interval": iv}]
        if rng is not None and rng.integers(2):
            # a second relation for the SAME target whose interval lies far beyond every axis (acts nowhere), listed after
            # or before the probe: each relation acts on its own interval, whatever else names that target
            far = max(max(d["g"]) for d in case["datasets"]) + 1000.0
            case["parameters"]["rel.2"] = {"value": 1.4142135623, "vary": False}
            other = {"source": "a", "target": "c", "parameter": "rel.2", "interval": [far, far + 1.0]}
            case["relations"] = case["relations"] + [other] if rng.integers(2) else [other] + case["relations"]
            case["features"]["second_relation_same_target"] = True
    elif kind in ("pen_source", "pen_target"):
        case["parameters"]["pen.1"] = {"value": 1.0, "vary": False}
        full = [[-float("inf"), float("inf")]]
        ivs = full if iv is None else ([iv] if not isinstance(iv[0], list) else iv)
        case["penalties"] = [{"source": "a", "source_intervals": ivs if kind == "pen_source" else full, "target": "b",
                              "target_intervals": ivs if kind == "pen_target" else full, "parameter": "pen.1", "weight": 2.0}]
    elif kind in ("weight_global", "weight_model"):
        if isinstance(iv, list) and iv and isinstance(iv[0], list):
            iv = iv[0]  # weights take a single interval
            case["iv"] = iv
        main = {"datasets": [d["label"] for d in case["datasets"]], "value": 0.371,
                "global_interval": iv if kind == "weight_global" else None,
                "model_interval": iv if kind == "weight_model" else None}
        case["weights"] = [main]
        if rng is not None and rng.integers(2):
            # a neutral weight item (value 1) on a small rectangle listed FIRST: the probe item, which leaves one interval
            # out, must still act on that whole axis
            d0 = case["datasets"][0]
            neutral = {"datasets": list(main["datasets"]), "value": 1.0, "global_interval": [d0["g"][0], d0["g"][min(1, len(d0["g"]) - 1)]],
                       "model_interval": [d0["t"][1], d0["t"][3]]}
            case["weights"] = [neutral, main]


# ---------------------------------------------------------------- observation
def penalty_data(case, kind):
    """Noise-free data whose clps encode the index: clp_src[i] = 4^i (the other label 0, 'c' generic)."""
    pv = O.parameter_values(case)
    out = {}
    nmax = max(len(d["g"]) for d in case["datasets"])
    own = bool(case.get("features", {}).get("own_axis_per_dataset"))
    for di, ds in enumerate(case["datasets"]):
        labels, M = O.dataset_matrix(case, ds, pv)
        D = np.zeros((len(ds["t"]), len(ds["g"])))
        for i in range(len(ds["g"])):
            clp = np.zeros(len(labels))
            clp[labels.index("a" if kind == "pen_source" else "b")] = 4.0 ** i
            clp[labels.index("c")] = 0.5
            if own and i == 0:
                # datasets with their own axis: the OTHER label (whose interval is the whole axis) carries a marker that
                # names the dataset, so that an entry can be attributed when another dataset contributes none
                clp[labels.index("b" if kind == "pen_source" else "a")] = (di + 1) * 4.0 ** (nmax + 1)
            D[:, i] = M[i] @ clp
        out[ds["label"]] = D
    return out


def observe(case, kind, prepare=None):
    """Run the real optimisation (1 evaluation) and read the affected set(s).
    -> {dataset label: set of indices}  (for weight_model: indices on the model axis)"""
    from glotaran.optimization.optimize import optimize

    override = penalty_data(case, kind) if kind.startswith("pen") else None
    data = S.build_data(case, override=override)
    scheme = S.build_scheme(case, data=data, maximum_number_function_evaluations=1)
    if prepare is not None:
        prepare(scheme)
    with warnings.catch_warnings(record=True) as w:
        warnings.simplefilter("always")
        with time_limit(30):
            result = optimize(scheme, verbose=False, raise_exception=True)
    sets = {}
    for gi_ds, ds in enumerate(case["datasets"]):
        rd = result.data[ds["label"]]
        g = np.asarray(ds["g"], dtype=float)
        if kind in ("zero", "only"):
            if "b" not in [str(x) for x in rd["clp"].coords["clp_label"].values]:
                continue  # this dataset does not have the constrained clp
            v = rd["clp"].sel(clp_label="b").values
            z = {i for i in range(len(g)) if v[i] == 0.0}
            sets[ds["label"]] = z if kind == "zero" else set(range(len(g))) - z
        elif kind == "relation":
            c = rd["clp"].sel(clp_label="c").values
            a = rd["clp"].sel(clp_label="a").values
            p = case["parameters"]["rel.1"]["value"]
            sets[ds["label"]] = {i for i in range(len(g)) if c[i] == p * a[i]}
        elif kind in ("weight_global", "weight_model"):
            if "weight" not in rd:
                sets[ds["label"]] = set()
                continue
            W = rd["weight"].transpose("time", "spectral").values
            val = case["weights"][-1]["value"]
            hit = W == val
            if not np.isin(W, [1.0, val]).all():
                raise AssertionError(f"weight values other than 1 and {val}: {np.unique(W)}")
            # product structure: rows x columns
            rows, cols = {int(i) for i in np.flatnonzero(hit.any(axis=1))}, {int(i) for i in np.flatnonzero(hit.any(axis=0))}
            if not np.array_equal(hit, np.outer(np.isin(np.arange(W.shape[0]), list(rows)), np.isin(np.arange(W.shape[1]), list(cols)))):
                raise AssertionError("weighted region is not a rectangle rows x columns")
            sets[ds["label"]] = (cols, rows)
    if kind.startswith("pen"):
        ap = [float(x) for grp in result.additional_penalty for x in np.atleast_1d(grp)]
        linked = case["groups"]["g1"]["link_clp"]
        labels = [d["label"] for d in case["datasets"]]
        n = max(len(d["g"]) for d in case["datasets"])
        codes = [x / case["penalties"][0]["weight"] for x in ap]
        dec = []
        for c in codes:
            r = round(c)
            if abs(c - r) > 1e-5 * max(1.0, abs(c)):
                raise AssertionError(f"area sum {c!r} is not an integer code")
            # base-4 digits: a point covered by several listed intervals is summed more than once (multiplicity
            # is not part of the property); digit >= 1 means affected
            dec.append({i for i in range(n) if (r >> (2 * i)) & 3})
        if linked:
            # one shared penalty; no entry at all means both/one area empty
            s = dec[0] if dec else set()
            for l in labels:
                sets[l] = s
            sets["_entries"] = len(dec)
        elif case.get("features", {}).get("own_axis_per_dataset"):
            # code = marker of the dataset - sum over the probed area (the marker exceeds every possible area sum)
            sets["_entries"] = len(codes)
            for l in labels:
                sets[l] = set()
            unit = 4 ** (n + 1)
            for cde in codes:
                r = round(cde)
                if abs(cde - r) > 1e-5 * max(1.0, abs(cde)):
                    raise AssertionError(f"area code {cde!r} is not an integer")
                d = -(-r // unit)  # ceil
                if not 1 <= d <= len(labels):
                    raise AssertionError(f"area code {r} carries no dataset marker")
                tsum = d * unit - r
                sets[labels[d - 1]] = {i for i in range(n) if (tsum >> (2 * i)) & 3}
        else:
            sets["_entries"] = len(dec)
            if len(dec) == len(labels):
                for l, s in zip(labels, dec):
                    sets[l] = s
            elif len(dec) == 0:
                for l in labels:
                    sets[l] = set()
            else:
                raise AssertionError(f"{len(dec)} penalty entries for {len(labels)} datasets")
    return sets, w, result


def judge_sets(case, kind, sets, rec, jc):
    """Inside <= S <= Nearest per dataset."""
    iv = case.get("iv")
    ok = True
    for ds in case["datasets"]:
        label = ds["label"]
        if kind == "weight_model":
            cols, rows = sets[label] if isinstance(sets[label], tuple) else (set(), set())
            axes = [("model", ds["t"], rows, iv), ("global", ds["g"], cols, None)]
        elif kind == "weight_global":
            cols, rows = sets[label] if isinstance(sets[label], tuple) else (set(), set())
            axes = [("global", ds["g"], cols, iv), ("model", ds["t"], rows, None)]
        else:
            if label not in sets:
                continue
            axes = [("global", ds["g"], sets[label], iv)]
        for name, axis, Sset, ivx in axes:
            inside, nearest = IV.inside_set(axis, ivx), IV.nearest_set(axis, ivx)
            if kind == "only":
                # `only` keeps the clp exactly where `zero` would remove it
                pass
            rec.count("sets_judged")
            if kind.startswith("weight") and not Sset and ivx is not None and name != ("model" if kind == "weight_model" else "global"):
                continue
            missing, extra = inside - Sset, Sset - nearest
            if kind.startswith("pen") and not Sset and sets.get("_entries") == 0 and not inside:
                continue
            if missing or extra:
                ok = False
                what = "misses points inside the interval" if missing else "reaches beyond the axis point nearest to a bound"
                rec.violation(f"{kind}:{what.split()[0]}:{case['features']['ivcls']}:{'linked' if case['features']['linked'] else 'unlinked'}", jc,
                              f"{kind} on {name} axis {axis} interval {ivx}: affected {sorted(Sset)}, inside {sorted(inside)}, nearest {sorted(nearest)} ({what})")
    return ok


def nontrivial(case):
    iv = case.get("iv")
    axis = case["datasets"][0]["t"] if case["features"]["kind"] == "weight_model" else case["datasets"][0]["g"]
    ins = IV.inside_set(axis, iv)
    return bool((ins and len(ins) < len(axis)) or case["features"]["ivcls"] in ("left_inf", "right_inf", "inf", "outside_below", "outside_above", "partly_below", "partly_above", "reversed"))


# ---------------------------------------------------------------- drivers
def run_probe(case, rec):
    jc = S.jsonable_case(case)
    kind = case["features"]["kind"]
    try:
        sets, w, result = observe(jc, kind)
    except (Exception, CaseTimeout) as e:  # noqa
        rec.violation(f"{kind}:raises:{type(e).__name__}:{case['features']['ivcls']}", jc, f"{type(e).__name__}: {str(e)[:300]}")
        return None
    judge_sets(jc, kind, sets, rec, jc)
    if kind in ("zero", "only", "relation"):
        # what the result REPORTS for the item (zeros / the relation between two clps) is what the fit USED: the result
        # datasets satisfy C03's identities (fitted data == matrix @ clp, clps == the reference solution of the reduced problem)
        from vf.props import c03

        for mech, detail in c03.check_result(jc, result, rec, jc)[:1]:
            rec.violation(f"{kind}:reported-item-not-what-the-fit-used:{mech.split(':')[0]}", jc, detail)
        rec.count("results_checked_against_fit")
    return sets


def run_monotone(case, rec, rng):
    """S(I) <= S(I') for I <= I'."""
    kind = case["features"]["kind"]
    if case.get("iv") is None:
        return
    jc = S.jsonable_case(case)
    wide = S.jsonable_case(dict(case))
    ivw = widen(rng, case["iv"])
    wide["iv"] = ivw
    set_item(wide, kind, S.jsonable_case({"iv": ivw})["iv"])
    try:
        s1, _, _ = observe(jc, kind)
        s2, _, _ = observe(wide, kind)
    except (Exception, CaseTimeout) as e:  # noqa
        rec.violation(f"{kind}:raises:{type(e).__name__}:monotone", wide, f"{type(e).__name__}: {str(e)[:300]}")
        return
    rec.count("monotonicity_pairs")
    for ds in case["datasets"]:
        if ds["label"] not in s1 or ds["label"] not in s2:
            continue
        a, b = s1[ds["label"]], s2[ds["label"]]
        if isinstance(a, tuple):
            a, b = (a[0], b[0]) if kind == "weight_global" else (a[1], b[1])
        if kind == "only":
            a, b = b, a  # enlarging the interval of `only` shrinks the removed set, i.e. enlarges the kept set: kept(I) <= kept(I')
            a, b = s1[ds["label"]], s2[ds["label"]]
        if not a <= b:
            rec.violation(f"{kind}:not-monotone", {"narrow": jc, "wide_interval": wide["iv"]},
                          f"interval {jc['iv']} affects {sorted(a)} but the larger {wide['iv']} only {sorted(b)}")


def run_reassign(case, rec, rng):
    """The item is CONSTRUCTED with one interval, used once, and its interval attribute is then reassigned on the same
    object (interactive use): from then on it acts on the new interval."""
    from glotaran.optimization.optimize import optimize

    kind = case["features"]["kind"]
    if kind not in ("zero", "only", "relation") or case.get("iv") is None:
        return
    jc1 = S.jsonable_case(case)
    jc2 = S.jsonable_case(dict(case))
    iv2 = widen(rng, case["iv"])
    jc2["iv"] = iv2
    if kind == "relation" and len(jc2["relations"]) > 1:
        # keep the second relation of the same target; only the probe's interval changes
        for r in jc2["relations"]:
            if r["parameter"] == "rel.1":
                r["interval"] = S.jsonable_case({"iv": iv2})["iv"]
    else:
        set_item(jc2, kind, S.jsonable_case({"iv": iv2})["iv"])

    def prepare(scheme):
        first = S.build_scheme(jc1, maximum_number_function_evaluations=1)
        with warnings.catch_warnings():
            warnings.simplefilter("ignore")
            optimize(first, verbose=False, raise_exception=True)
        items = first.model.clp_relations if kind == "relation" else first.model.clp_constraints
        item = next((x for x in items if kind == "relation" and str(getattr(x.parameter, "label", x.parameter)) == "rel.1"), items[0])
        item.interval = S.as_interval(jc2["iv"])
        scheme.model = first.model

    try:
        sets, _, _ = observe(jc2, kind, prepare=prepare)
    except (Exception, CaseTimeout) as e:  # noqa
        rec.violation(f"{kind}:raises:{type(e).__name__}:reassigned-interval", jc2, f"{type(e).__name__}: {str(e)[:300]}")
        return
    rec.count("reassigned_intervals_judged")
    jc2["features"] = dict(jc2["features"], ivcls="reassigned")
    judge_sets(jc2, kind, sets, rec, dict(jc2, scenario=f"item constructed with interval {jc1['iv']}, used, then .interval reassigned"))


def run_complement(case, rec):
    """only == complement of zero on the same interval."""
    jc = S.jsonable_case(case)
    z = S.jsonable_case(case)
    set_item(z, "zero", jc["iv"])
    o = S.jsonable_case(case)
    set_item(o, "only", jc["iv"])
    try:
        sz, _, _ = observe(z, "zero")
        so, _, _ = observe(o, "zero")  # read the zero set of the `only` model
    except (Exception, CaseTimeout) as e:  # noqa
        rec.violation(f"only:raises:{type(e).__name__}", jc, f"{type(e).__name__}: {str(e)[:300]}")
        return
    rec.count("complement_pairs")
    for ds in case["datasets"]:
        n = len(ds["g"])
        if ds["label"] not in sz or ds["label"] not in so:
            continue
        if sz[ds["label"]] | so[ds["label"]] != set(range(n)) or sz[ds["label"]] & so[ds["label"]]:
            rec.violation("only-not-complement-of-zero", jc, f"interval {jc['iv']}: zero removes {sorted(sz[ds['label']])}, only removes {sorted(so[ds['label']])} of {n} points")


def run_both_weights(rng, rec):
    """dataset weight + model weight: dataset weight used, exactly one warning naming the dataset."""
    case = probe_case(rng, "weight_global", str(rng.choice(["none", "finite", "right_inf"])))
    for d in case["datasets"]:
        d["weight"] = "dataset"
    jc = S.jsonable_case(case)
    from glotaran.optimization.optimize import optimize

    rec.count("both_weight_cases")
    try:
        scheme = S.build_scheme(jc, maximum_number_function_evaluations=1)
        with warnings.catch_warnings(record=True) as w:
            warnings.simplefilter("always")
            result = optimize(scheme, verbose=False, raise_exception=True)
    except Exception as e:  # noqa
        rec.violation(f"both-weights:raises:{type(e).__name__}", jc, f"{type(e).__name__}: {str(e)[:300]}")
        return
    for ds in jc["datasets"]:
        _, Wd = S.dataset_arrays(ds)
        W = result.data[ds["label"]]["weight"].transpose("time", "spectral").values
        if not np.array_equal(W, Wd):
            rec.violation("both-weights:dataset-weight-not-used", jc, f"{ds['label']}: result weight differs from the dataset's weight")
        msgs = [str(x.message) for x in w if ds["label"] in str(x.message) and "weight" in str(x.message).lower()]
        if len(msgs) != 1:
            rec.violation("both-weights:warning-count", jc, f"{len(msgs)} warnings mentioning dataset {ds['label']} and its weight: {msgs[:3]}")


def plan(tier, seed):
    n = {"quick": 16, "thorough": 32}[tier]
    return [{"shard": i, "rounds": {"quick": 4, "thorough": 40}[tier]} for i in range(n)]


def run_shard(spec, rec):
    attach(rec)
    rng = rng_for(spec)
    S.model_class()
    combos = [(k, c) for k in KINDS for c in IV_CLASSES]
    nsh = 16 if spec.get("tier") == "quick" else 32
    for r in range(spec["rounds"]):
        for ci, (kind, ivcls) in enumerate(combos):
            if (ci + r) % nsh != spec["shard"] % nsh and spec.get("tier") == "quick" and (ci * 7 + spec["shard"]) % 4:
                continue
            if kind.startswith("weight") and ivcls == "list":
                continue
            for rep in range(2):
                case = probe_case(rng, kind, ivcls)
                run_probe(case, rec)
                f = case["features"]
                rec.case((kind, ivcls, f["axis"], f["linked"], f["idxdep"]), nontrivial(case), sample=S.jsonable_case(case) if (ci + rep) % 40 == 0 else None,
                         features=[f"kind={kind}", f"iv={ivcls}"])
                if rep == 0 and ivcls != "none":
                    run_monotone(case, rec, rng)
                if rep == 0 and kind == "zero":
                    run_complement(case, rec)
                if rep == 0 and ivcls in ("finite", "on_points", "between", "partly_above"):
                    run_reassign(case, rec, rng)
        run_both_weights(rng, rec)


def replay(case, rec):
    attach(rec)
    S.model_class()
    if "narrow" in case:
        case = case["narrow"]
    kind = case["features"]["kind"]
    sets, w, result = observe(case, kind)
    judge_sets(case, kind, sets, rec, case)
