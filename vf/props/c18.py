"""C18 - saving never destroys existing files unless asked; project results accumulate.

Monitors: sys.addaudithook event log (open for writing, remove, rename, mkdir, truncate, shutil.*)
bracketed per call; before/after snapshots (sha256 + mtime_ns) of the whole directory tree; call
counter of mock plugins (incl. one that writes half a file and raises); thorough tier: the refusal
matrix again in a child under strace (netCDF4 writes through C and is invisible to audit hooks).
Oracle: the statement's refusal table; for Project histories an executable model
(name -> list of runs) compared after every operation.
"""
from __future__ import annotations

import contextlib
import hashlib
import io
import os
import shutil
import subprocess
import sys
import warnings
from pathlib import Path

import numpy as np

from vf.core import child_env, rng_for

LEVEL = "fault_enumeration"
RULE = (
    "Exhaustive matrix {save_model, save_parameters, save_scheme, save_result, save_dataset} x {every registered format, inferred "
    "from the extension, unknown format} x {target absent, file present, empty folder, non-empty folder} x allow_overwrite on/off x "
    "{real plugin, mock plugin that writes half a file and raises}: refusal cases must raise FileExistsError with zero write "
    "events on pre-existing paths, byte- and mtime-identical snapshots and no plugin invocation; every other case must leave all "
    "pre-existing files except the target byte-identical.  Project histories (length <= 12, names a / a_run / a_run_b / ab / "
    "a_run_0001x / b sharing prefixes and containing '_run_') of optimize / import_data / generate_parameters / generate_model / "
    "lookups against a sequential model: one new folder <name>_run_<n> per optimize with n = previous maximum for exactly that name "
    "+ 1, earlier runs byte-identical and loadable, latest lookups resolve to the newest run of exactly that name, with or without "
    "run specifier; allow_overwrite / ignore_existing honoured.  Non-trivial: a pre-existing path is in play / a history has >= 2 "
    "names sharing a prefix; distinct = matrix cell resp. history."
)
ASSUMPTIONS = [
    "os.mkdir of an already existing parent directory (protect_from_overwrite's mkdir(exist_ok=True)) is not a write",
    "Python-level audit events + snapshots decide the quick tier; strace decides C-level writes in the thorough tier",
]
MIN_NONTRIVIAL = {"quick": 150, "thorough": 300}
DECIDING = ["refusal_cases_judged", "matrix_cells", "audit_events_seen", "history_operations", "history_lookups_compared", "mock_plugin_cases"]
EXHAUSTIVE = {"quick": True, "thorough": True}

EVENTS = []
_HOOKED = [False]


def install_hook():
    if _HOOKED[0]:
        return
    _HOOKED[0] = True

    def hook(ev, args):
        try:
            if ev == "open" and isinstance(args[0], (str, bytes, os.PathLike)) and args[1] and any(c in str(args[1]) for c in "wax+"):
                EVENTS.append(("open", os.fspath(args[0]) if not isinstance(args[0], bytes) else args[0].decode(), str(args[1])))
            elif ev in ("os.remove", "os.rename", "os.mkdir", "os.rmdir", "os.truncate", "os.unlink", "shutil.rmtree", "shutil.move", "shutil.copyfile", "os.replace"):
                EVENTS.append((ev,) + tuple(str(a) for a in args[:2]))
        except Exception:  # noqa
            pass

    sys.addaudithook(hook)


def snap(root):
    out = {}
    for p in sorted(Path(root).rglob("*")):
        if p.is_file():
            out[str(p.relative_to(root))] = (hashlib.sha256(p.read_bytes()).hexdigest(), p.stat().st_mtime_ns)
        else:
            out[str(p.relative_to(root)) + "/"] = ("dir", 0)
    return out


MODEL_YML = """
megacomplex:
  m:
    type: decay-parallel
    compartments: [a]
    rates: [k]
dataset:
  d1:
    megacomplex: [m]
"""


def objects():
    """model, parameters, scheme, result, dataset from a tiny real optimisation."""
    import xarray as xr
    from glotaran.optimization.optimize import optimize
    from glotaran.parameter import Parameters
    from glotaran.project import Scheme
    from vf.gen.simple import all_builtin_model_class

    from glotaran.io import load_model

    model = load_model(MODEL_YML, format_name="yml_str")
    params = Parameters.from_list([["k", 0.5]])
    rng = np.random.default_rng(0)
    t, g = np.linspace(0, 5, 12), np.array([1.0, 2.0, 3.0])
    ds = xr.DataArray(np.exp(-0.5 * t)[:, None] * np.array([1.0, 2.0, 3.0]) + 0.01 * rng.standard_normal((12, 3)), coords=[("time", t), ("spectral", g)]).to_dataset(name="data")
    scheme = Scheme(model=model, parameters=params, data={"d1": ds}, maximum_number_function_evaluations=1)
    with contextlib.redirect_stdout(io.StringIO()), warnings.catch_warnings():
        warnings.simplefilter("ignore")
        result = optimize(scheme, verbose=False)
    return {"model": model, "parameters": params, "scheme": scheme, "result": result, "dataset": ds}


def save_functions():
    from glotaran.io import save_dataset, save_model, save_parameters, save_result, save_scheme

    return {"model": save_model, "parameters": save_parameters, "scheme": save_scheme, "result": save_result, "dataset": save_dataset}


# ---------------------------------------------------------------- A: refusal matrix
def matrix_cells(mock):
    from glotaran.plugin_system.data_io_registration import known_data_formats
    from glotaran.plugin_system.project_io_registration import known_project_formats

    cells = []
    for name in ("model", "parameters", "scheme", "result", "dataset"):
        fmts = list(known_data_formats() if name == "dataset" else known_project_formats()) + ["nosuchformat", None]
        if mock:
            fmts = ["vfmock", None]
        for fmt in fmts:
            for state in ("absent", "file", "empty_folder", "nonempty_folder", "file_noext", "nonempty_folder_dotted"):
                if state == "file_noext" and not fmt:
                    continue  # without an extension the format has to be named
                for allow in (False, True):
                    cells.append((name, fmt, state, allow))
    if not mock:
        # composite savers failing midway into a place that already holds OTHER files: the target itself is absent
        # (or an empty folder), so nothing is refused - and nothing that was there before may change or vanish
        for fmt in ("yml", "folder", "legacy", None):
            for state in ("absent", "empty_folder", "absent_in_nonempty_folder"):
                if fmt in ("folder", "legacy") and state != "empty_folder":
                    continue
                for fault in ("data_plugin", "data_format_without_save", "save_model", "save_scheme", "write_dict"):
                    for allow in (False, True):
                        cells.append(("result", fmt, state, allow, fault))
    return cells


MOCK_CALLS = []


def register_mock():
    from glotaran.io import DataIoInterface, ProjectIoInterface
    from glotaran.plugin_system.data_io_registration import register_data_io
    from glotaran.plugin_system.project_io_registration import register_project_io

    def half(path):
        MOCK_CALLS.append(str(path))
        p = Path(path)
        if p.is_dir():
            p = p / "half.vfmock"
        with open(p, "w") as f:
            f.write("half a fi")
        raise RuntimeError("vf mock plugin failed midway")

    @register_project_io(["vfmock"])
    class VfMockProjectIo(ProjectIoInterface):
        def save_model(self, model, file_name, **kw):
            half(file_name)

        def save_parameters(self, parameters, file_name, **kw):
            half(file_name)

        def save_scheme(self, scheme, file_name, **kw):
            half(file_name)

        def save_result(self, result, result_path, saving_options=None, **kw):
            half(result_path)

    @register_data_io(["vfmock"])
    class VfMockDataIo(DataIoInterface):
        def save_dataset(self, dataset, file_name, **kw):
            half(file_name)


def register_failing_data_plugin():
    from glotaran.io import DataIoInterface
    from glotaran.plugin_system.data_io_registration import known_data_formats, register_data_io

    if "vffail" in known_data_formats():
        return

    @register_data_io(["vffail"])
    class VfFailDataIo(DataIoInterface):
        def save_dataset(self, dataset, file_name, **kw):
            with open(file_name, "w") as f:
                f.write("half a fi")
            raise RuntimeError("vf data plugin failed midway (injected)")


def run_cell(cell, objs, funcs, root, rec, mock=False):
    name, fmt, state, allow = cell[:4]
    fault = cell[4] if len(cell) > 4 else None
    root = Path(root)
    if root.exists():
        shutil.rmtree(root)
    root.mkdir(parents=True)
    (root / "sibling.txt").write_bytes(b"PRECIOUS SIBLING")
    ext = fmt if fmt and fmt != "nosuchformat" else ("vfmock" if mock else ("nc" if name == "dataset" else "yml"))
    if state == "absent_in_nonempty_folder":
        (root / "out" / "raw").mkdir(parents=True)
        (root / "out" / "notes.txt").write_bytes(b"PRECIOUS NOTES")
        (root / "out" / "raw" / "measurement.dat").write_bytes(bytes(range(256)))
        (root / "out" / "first_fit.yml").write_bytes(b"PRECIOUS EARLIER RESULT")
        target = root / "out" / f"second_fit.{ext}"
    elif state in ("absent", "file", "file_noext"):
        # what exists is decided by the file system, not by the shape of the name: a file without extension is a file
        target = root / (f"target.{ext}" if state != "file_noext" else "target")
        if state != "absent":
            target.write_bytes(b"PRECIOUS")
    else:
        # ... and a folder whose name contains a dot is a folder
        target = root / ("folder" if state != "nonempty_folder_dotted" else "fit_v1.2")
        target.mkdir()
        if state in ("nonempty_folder", "nonempty_folder_dotted"):
            (target / "keep.txt").write_bytes(b"PRECIOUS")
            (target / "result.yml").write_bytes(b"PRECIOUS")
    before = snap(root)
    preexisting = {str((root / k).resolve()) for k in before}
    del EVENTS[:]
    del MOCK_CALLS[:]
    kw = {"allow_overwrite": True} if allow else {}
    if fmt:
        kw["format_name"] = fmt
    restore = None
    if fault in ("data_plugin", "data_format_without_save"):
        from glotaran.io import SavingOptions

        register_failing_data_plugin()
        kw["saving_options"] = SavingOptions(data_format="vffail" if fault == "data_plugin" else "sdt")
    elif fault:
        import glotaran.builtin.io.yml.yml as YML

        def failing(*a, **k):
            raise OSError(28, "No space left on device (injected)")

        restore = (YML, fault, getattr(YML, fault))
        setattr(YML, fault, failing)
    try:
        with warnings.catch_warnings(), contextlib.redirect_stdout(io.StringIO()):
            warnings.simplefilter("ignore")
            funcs[name](objs[name], target, **kw)
        out = "ok"
    except FileExistsError:
        out = "FileExistsError"
    except Exception as e:  # noqa
        out = f"{type(e).__name__}"
    finally:
        if restore:
            setattr(*restore)
    if fault:
        rec.count("fault_cells")
        rec.count(f"fault_cells:{fault}:{out}")
    after = snap(root)
    rec.count("matrix_cells")
    wrote = []
    for e in EVENTS:
        rec.count("audit_events_seen")
        path = e[1]
        try:
            rp = str(Path(path).resolve())
        except Exception:  # noqa
            rp = path
        if not rp.startswith(str(root.resolve())):
            continue
        if e[0] == "os.mkdir" and rp in preexisting:
            continue  # mkdir(exist_ok=True) of an existing directory: not a write
        wrote.append((e[0], rp, e[2] if len(e) > 2 else ""))
    ctx = {"function": f"save_{name}", "format": fmt, "target_state": state, "allow_overwrite": allow, "mock_plugin": mock, "outcome": out, "fault": fault}
    refusal = state in ("file", "nonempty_folder", "file_noext", "nonempty_folder_dotted") and not allow
    tag = f"save_{name}:{fmt if fmt in (None, 'nosuchformat', 'vfmock') else 'registered'}:{state}" + (f":fault={fault}" if fault else "")
    if refusal:
        rec.count("refusal_cases_judged")
        if out != "FileExistsError":
            rec.violation(f"no-refusal:{tag}", ctx, f"expected FileExistsError, got {out}")
        touched = [w for w in wrote if w[1] in preexisting]
        if touched:
            rec.violation(f"write-before-refusal:{tag}", ctx, f"write events on pre-existing paths: {touched[:3]}")
        if before != after:
            diff = [k for k in set(before) | set(after) if before.get(k) != after.get(k)]
            rec.violation(f"files-changed-on-refusal:{tag}", ctx, f"changed / new / removed: {diff[:4]}")
        if mock and MOCK_CALLS:
            rec.violation(f"plugin-invoked-before-refusal:{tag}", ctx, f"plugin called {len(MOCK_CALLS)}x although the target exists")
    else:
        # nothing but the target (and what is created inside / next to it) may change
        protected = [k for k in before if before[k][0] != "dir" and not (str(root / k) == str(target) or str(root / k).startswith(str(target) + os.sep))]
        for k in protected:
            if before[k] != after.get(k):
                rec.violation(f"unrelated-file-changed:{tag}", ctx, f"{k} changed although it is not the save target" if k in after else f"{k} vanished although it is not the save target")
        if fault and out == "ok" and fault not in ("save_model", "save_scheme", "write_dict"):
            pass  # a format that never saves datasets through the data plugin: nothing injected
        if fault in ("save_model", "save_scheme", "write_dict") and fmt in ("yml", None) and out == "ok":
            rec.violation(f"fault-not-reported:{tag}", ctx, f"injected OSError in {fault} did not surface (outcome {out})")
        if state == "nonempty_folder" and allow:
            pass
    if mock:
        rec.count("mock_plugin_cases")
    return refusal


def run_matrix(spec, rec):
    install_hook()
    if spec.get("mock"):
        register_mock()
    objs = objects()
    funcs = save_functions()
    scratch = Path(os.environ.get("VF_SCRATCH", ".")) / "matrix"
    cells = matrix_cells(spec.get("mock", False))
    for i, cell in enumerate(cells):
        if i % spec["nshards"] != spec["part"]:
            continue
        refusal = run_cell(cell, objs, funcs, scratch, rec, mock=spec.get("mock", False))
        rec.case(("matrix",) + tuple(str(c) for c in cell) + (spec.get("mock", False),), cell[2] != "absent",
                 sample={"function": f"save_{cell[0]}", "format": cell[1], "target_state": cell[2], "allow_overwrite": cell[3]} if i < 2 else None,
                 features=[f"save_{cell[0]}", f"state={cell[2]}"])


# ---------------------------------------------------------------- strace variant (thorough)
STRACE_CHILD = r'''
import sys, json, os
sys.path[:0] = {path!r}
from vf.props import c18
from vf.core import Rec
rec = Rec("C18", {{}})
objs = c18.objects(); funcs = c18.save_functions()
print("VFMARK start", flush=True)
for i, cell in enumerate(c18.matrix_cells(False)):
    if cell[2] in ("file", "nonempty_folder") and not cell[3]:
        root = os.path.join({scratch!r}, "cell%d" % i)
        c18.run_cell(cell, objs, funcs, root, rec)
print("VFMARK end", flush=True)
'''


def run_strace(spec, rec):
    scratch = Path(os.environ.get("VF_SCRATCH", ".")) / "strace"
    scratch.mkdir(parents=True, exist_ok=True)
    from vf.core import ROOT

    code = STRACE_CHILD.format(path=[ROOT, os.path.join(ROOT, ".deps")], scratch=str(scratch))
    log = scratch / "trace.log"
    p = subprocess.run(["strace", "-f", "-e", "trace=openat,creat,unlink,unlinkat,rename,renameat,renameat2,truncate,ftruncate", "-o", str(log), sys.executable, "-c", code],
                       env=child_env(), capture_output=True, text=True, timeout=1200)
    if p.returncode != 0 or not log.exists():
        rec.note("strace child failed: " + (p.stderr or "")[-300:])
        return
    n = 0
    bad = []
    for line in log.read_text(errors="replace").splitlines():
        if "PRECIOUS" in line:
            continue
        if str(scratch) not in line:
            continue
        n += 1
        is_pre = any(x in line for x in ("/keep.txt", "/result.yml\"", "/sibling.txt")) or ("/target." in line)
        write = ("O_WRONLY" in line or "O_RDWR" in line or "O_TRUNC" in line or "O_CREAT" in line) or line.split("(")[0].split()[-1] in ("unlink", "unlinkat", "rename", "renameat", "renameat2", "truncate", "creat")
        # the harness itself creates the files before each cell: those opens carry O_CREAT on a path that does not yet exist and
        # happen before the save call; distinguish by the harness's own marker files being written with O_CREAT|O_TRUNC by write_bytes.
        if is_pre and write and "ENOENT" not in line:
            bad.append(line[:200])
    rec.count("strace_file_syscalls", n)
    # harness writes (write_bytes) are the only expected writes: exactly one O_CREAT|O_TRUNC open per precious file per cell
    cells = [c for c in matrix_cells(False) if c[2] in ("file", "nonempty_folder") and not c[3]]
    expected = sum(2 if c[2] == "file" else 3 for c in cells)
    rec.count("strace_refusal_cells", len(cells))
    if len(bad) > expected:
        rec.violation("strace:write-syscall-on-pre-existing-path", {"examples": bad[expected:expected + 3]}, f"{len(bad) - expected} write-type system calls on pre-existing paths beyond the harness's own {expected}")
    rec.case(("strace",), True, sample={"strace_lines": n, "refusal_cells": len(cells)}, features=["strace"])


# ---------------------------------------------------------------- B: project histories
NAMES = ["a", "a_run", "a_run_b", "ab", "a_run_0001x", "b", "a_run_00"]


class ProjModel:
    """name -> list of run folder names."""

    def __init__(self):
        self.runs = {}

    def optimize(self, name):
        n = len(self.runs.get(name, []))
        folder = f"{name}_run_{n:04d}"
        self.runs.setdefault(name, []).append(folder)
        return folder

    def latest(self, name):
        return self.runs[name][-1] if self.runs.get(name) else None

    def all_folders(self):
        return sorted(f for v in self.runs.values() for f in v)


def run_history(rng, rec, scratch, hist_id, length):
    import re

    from glotaran.io import save_model, save_parameters
    from glotaran.project import Project

    install_hook()
    objs = objects()
    root = Path(scratch) / f"proj{hist_id}"
    if root.exists():
        shutil.rmtree(root)
    with warnings.catch_warnings(), contextlib.redirect_stdout(io.StringIO()):
        warnings.simplefilter("ignore")
        proj = Project.open(root)
        proj.import_data(objs["dataset"], dataset_name="d1")
        save_model(objs["model"], proj.get_models_directory() / "m.yml")
        save_parameters(objs["parameters"], proj.get_parameters_directory() / "p.csv")
    model = ProjModel()
    ops = []
    results_dir = root / "results"
    run_hashes = {}
    incomplete = set()

    def folder_hash(folder):
        return {k: v[0] for k, v in snap(results_dir / folder).items()}

    names = [NAMES[i] for i in rng.choice(len(NAMES), size=int(rng.integers(2, 5)), replace=False)]
    prefix_sharing = sum(1 for a in names for b in names if a != b and b.startswith(a)) > 0
    for step in range(length):
        kind = str(rng.choice(["optimize", "optimize", "optimize", "lookup", "import", "genparam", "optimize-fail"]))
        name = str(rng.choice(names))
        ops.append([kind, name])
        ctx = {"history": ops[:], "names": names}
        rec.count("history_operations")
        with warnings.catch_warnings(), contextlib.redirect_stdout(io.StringIO()):
            warnings.simplefilter("ignore")
            if kind == "optimize-fail":
                # fault injection: the save of this run fails midway (after the run folder and some files exist, before
                # result.yml is written); the partial folder keeps its run number and is never touched again
                import glotaran.builtin.io.yml.yml as YML

                point = str(rng.choice(["save_model", "save_scheme", "write_dict"]))
                ops[-1].append(point)
                before = set(p.name for p in results_dir.iterdir()) if results_dir.exists() else set()
                orig = getattr(YML, point)

                def failing(*a, **k):
                    raise OSError(28, "No space left on device (injected)")

                setattr(YML, point, failing)
                try:
                    proj.optimize("m", "p", result_name=name, maximum_number_function_evaluations=1)
                    err = None
                except OSError as e:
                    err = str(e)
                except Exception as e:  # noqa
                    err = f"other {type(e).__name__}: {str(e)[:100]}"
                finally:
                    setattr(YML, point, orig)
                rec.count("history_failed_saves")
                after = set(p.name for p in results_dir.iterdir()) if results_dir.exists() else set()
                new = after - before
                if err is None or "injected" not in err:
                    rec.violation("project:failed-save-not-reported", ctx, f"injected OSError in {point} during optimize(result_name={name!r}) surfaced as {err!r}")
                    return prefix_sharing
                if new:
                    want = model.optimize(name)
                    if new != {want}:
                        rec.violation("project:run-folder:failed-save", ctx, f"failed optimize(result_name={name!r}) created {sorted(new)}, expected at most ['{want}']")
                        return prefix_sharing
                    incomplete.add(want)
                    run_hashes[want] = folder_hash(want)
                for f, h in run_hashes.items():
                    if folder_hash(f) != h:
                        rec.violation("project:earlier-run-changed", ctx, f"run folder {f} changed during a later, failing optimize")
                        return prefix_sharing
            elif kind == "optimize":
                before = set(p.name for p in results_dir.iterdir()) if results_dir.exists() else set()
                try:
                    proj.optimize("m", "p", result_name=name, maximum_number_function_evaluations=1)
                    err = None
                except Exception as e:  # noqa
                    err = f"{type(e).__name__}: {str(e)[:120]}"
                after = set(p.name for p in results_dir.iterdir()) if results_dir.exists() else set()
                want = model.optimize(name)
                if err:
                    rec.violation("project:optimize-raises:" + ("prefix-sharing-names" if prefix_sharing else "plain"), ctx, f"optimize(result_name={name!r}) raised {err}; existing results {sorted(before)}")
                    return prefix_sharing
                new = after - before
                if new != {want}:
                    rec.violation("project:run-folder:" + ("prefix-sharing-names" if prefix_sharing else "plain"), ctx, f"optimize(result_name={name!r}) created {sorted(new)}, expected exactly ['{want}'] (existing {sorted(before)})")
                    return prefix_sharing
                for f, h in run_hashes.items():
                    if folder_hash(f) != h:
                        rec.violation("project:earlier-run-changed" + (":incomplete-folder-reused" if f in incomplete else ""), ctx, f"run folder {f} changed after a later optimize")
                        return prefix_sharing
                run_hashes[want] = folder_hash(want)
            elif kind == "lookup":
                for q in names:
                    want = model.latest(q)
                    if want in incomplete:
                        # the newest run folder of this name holds no result: what 'latest' denotes is not fixed by the property
                        rec.skip("lookup of a name whose newest run folder is incomplete")
                        continue
                    for how in ("get_latest_result_path", "get_result_path(latest=True)", "latest-with-run-specifier", "load_latest_result"):
                        rec.count("history_lookups_compared")
                        try:
                            if how == "get_latest_result_path":
                                got = proj.get_latest_result_path(q).name
                            elif how == "get_result_path(latest=True)":
                                got = proj.get_result_path(q, latest=True).name
                            elif how == "latest-with-run-specifier":
                                if want is None:
                                    continue
                                got = proj.get_latest_result_path(f"{q}_run_0000").name
                            else:
                                r = proj.load_latest_result(q)
                                got = Path(r.source_path).parent.name
                        except ValueError:
                            got = None
                        except Exception as e:  # noqa
                            got = f"{type(e).__name__}"
                        if got != want:
                            rec.violation(f"project:latest-lookup:{how}:" + ("prefix-sharing-names" if prefix_sharing else "plain"), ctx,
                                          f"{how}({q!r}) resolved to {got!r}, the newest run of exactly that name is {want!r} (runs {model.all_folders()})")
                            return prefix_sharing
                # earlier runs stay loadable
                for f in [x for x in model.all_folders() if x not in incomplete][:3]:
                    try:
                        proj.load_result(f)
                    except Exception as e:  # noqa
                        rec.violation("project:earlier-run-not-loadable", ctx, f"load_result({f!r}) raised {type(e).__name__}: {str(e)[:100]}")
                        return prefix_sharing
            elif kind == "import":
                target = root / "data" / "d1.nc"
                h = hashlib.sha256(target.read_bytes()).hexdigest()
                mode = str(rng.choice(["default", "no-ignore", "overwrite"]))
                ops[-1].append(mode)
                as_mapping = bool(rng.integers(2))  # import_data accepts one dataset + name, or a mapping name -> dataset
                ops[-1].append("mapping" if as_mapping else "single")
                mode = mode if not as_mapping else mode
                try:
                    if mode == "default":
                        proj.import_data({"d1": objs["dataset"] * 2}) if as_mapping else proj.import_data(objs["dataset"] * 2, dataset_name="d1")
                    elif mode == "no-ignore":
                        (proj.import_data({"d1": objs["dataset"] * 2}, ignore_existing=False) if as_mapping
                         else proj.import_data(objs["dataset"] * 2, dataset_name="d1", ignore_existing=False))
                    else:
                        (proj.import_data({"d1": objs["dataset"]}, allow_overwrite=True) if as_mapping
                         else proj.import_data(objs["dataset"], dataset_name="d1", allow_overwrite=True))
                    err = None
                except FileExistsError:
                    err = "FileExistsError"
                except Exception as e:  # noqa
                    err = type(e).__name__
                h2 = hashlib.sha256(target.read_bytes()).hexdigest()
                if mode != "overwrite" and h2 != h:
                    rec.violation(f"project:import_data-overwrote:{mode}:{'mapping' if as_mapping else 'single'}", ctx, "existing dataset file changed without allow_overwrite")
                if mode == "no-ignore" and err != "FileExistsError":
                    rec.violation("project:import_data-no-refusal", ctx, f"ignore_existing=False, allow_overwrite=False on an existing dataset: {err}")
                if mode == "default" and err is not None:
                    rec.violation("project:import_data-default-raises", ctx, f"{err}")
            else:
                target = root / "parameters" / "p.csv"
                h = hashlib.sha256(target.read_bytes()).hexdigest()
                mode = str(rng.choice(["default", "ignore", "overwrite"]))
                ops[-1].append(mode)
                try:
                    proj.generate_parameters("m", "p", allow_overwrite=(mode == "overwrite"), ignore_existing=(mode == "ignore"))
                    err = None
                except FileExistsError:
                    err = "FileExistsError"
                except Exception as e:  # noqa
                    err = type(e).__name__
                h2 = hashlib.sha256(target.read_bytes()).hexdigest()
                if mode != "overwrite" and h2 != h:
                    rec.violation(f"project:generate_parameters-overwrote:{mode}", ctx, "existing parameter file changed without allow_overwrite")
                if mode == "default" and err != "FileExistsError":
                    rec.violation("project:generate_parameters-no-refusal", ctx, f"existing parameters file, no flags: {err}")
                if mode == "overwrite":
                    save_parameters(objs["parameters"], target, allow_overwrite=True)
    return prefix_sharing


def plan(tier, seed):
    specs = []
    nsh = 6
    for part in range(nsh):
        specs.append({"mode": "matrix", "part": part, "nshards": nsh, "mock": False, "shard": len(specs)})
    for part in range(2):
        specs.append({"mode": "matrix", "part": part, "nshards": 2, "mock": True, "shard": len(specs)})
    nh = {"quick": 8, "thorough": 24}[tier]
    for i in range(nh):
        specs.append({"mode": "history", "shard": 100 + i, "n": {"quick": 3, "thorough": 12}[tier]})
    if tier == "thorough":
        specs.append({"mode": "strace", "shard": 200})
    return specs


def run_shard(spec, rec):
    if spec["mode"] == "matrix":
        return run_matrix(spec, rec)
    if spec["mode"] == "strace":
        return run_strace(spec, rec)
    rng = rng_for(spec)
    scratch = os.environ.get("VF_SCRATCH", ".")
    for i in range(spec["n"]):
        length = int(rng.integers(6, 13))
        nt = run_history(rng, rec, scratch, i, length)
        rec.case(("history", spec["shard"], i), bool(nt), sample=None, features=["history"])


def replay(case, rec):
    rec.note("C18 cells / histories are enumerated deterministically: ./check C18")
