"""C09 - CLP linking aligns global axes faithfully.

Monitor: after-__init__ observation of the real DataProviderLinked tables (aligned axis, aligned
data, dataset indices, group definitions, aligned weights), recorder on align_index.
Oracle: vf.ref.align (set of admissible alignments, ties admit either neighbour); data carry
unique ids, so "every column enters the stacked problem exactly once" is read off the tables.
A slice of cases additionally goes through optimize() and the C03 result oracle.
"""
from __future__ import annotations

import itertools

import numpy as np

from vf.core import rng_for, time_limit, CaseTimeout
from vf.gen import schemes as S
from vf.ref import align as AL

LEVEL = "exploration"
RULE = (
    "Provider constructions: exhaustive over 2 datasets with global axes = all subsets (size 1..3 quick / 1..4 thorough) of a "
    "5- resp. 6-point grid shifted by offsets {0, 0.3, 0.5}, tolerances {0, 0.2, 0.3, 0.5, 0.7, 1.0}, methods nearest / backward / "
    "forward; random: 2-4 datasets, up to 12 points, non-uniform axes, random tolerances, every dataset order, weights on some "
    "datasets only.  For each construction the real tables must equal one admissible outcome of the sequential model "
    "(assignment of every point, strictly increasing aligned axis, stacked data = exactly the assigned columns in dataset "
    "order - identified by unique ids -, aligned weights with ones for unweighted members) and AlignDatasetError must be "
    "raised iff the model says ambiguous.  A slice of unique alignments runs through optimize() and the C03 oracle (clps "
    "shared iff same aligned point, residuals under original coordinates).  Non-trivial: a point lies within tolerance of a "
    "different value; distinct = (axes, tolerance, method)."
)
ASSUMPTIONS = [
    "vf/ref/align.py encodes the statement; equidistant candidates admit either choice",
    "xarray outer-join concat is the implementation's business: only the resulting tables are judged",
]
MIN_NONTRIVIAL = {"quick": 2000, "thorough": 20000}
DECIDING = ["providers_checked", "mon:align_index", "columns_conserved", "optimize_checked", "error_cases_agreed"]

TOLS = [0.0, 0.2, 0.3, 0.5, 0.7, 1.0]
METHODS = ["nearest", "backward", "forward"]


def attach(rec):
    from glotaran.optimization.data_provider import DataProviderLinked
    from vf.instrument import wrap

    wrap(DataProviderLinked, "align_index", rec=rec, key="mon:align_index")


# dataset labels whose concatenations collide (the provider names a group of datasets by the joined labels and has to keep
# different member sets apart): a+b == ab, x+yx == xy+x, ...
COLLISION_POOLS = [["a", "b", "ab", "ba"], ["x", "yx", "xy", "xyx"], ["d1", "d", "1d", "d11"], ["run", "run_", "_run", "run_run"]]


def make_case(axes, tol, method, weights=None, seed=0, nt=None, idxdep=False, labels=None, varied_clps=False):
    datasets = []
    id0 = 0
    rng = np.random.default_rng(seed)
    for d, g in enumerate(axes):
        n = int(nt[d]) if nt is not None else 4 + d
        t = (np.arange(n) * 0.5).tolist()
        datasets.append({"label": labels[d] if labels else f"ds{d + 1}", "group": "g1", "t": t, "g": [float(x) for x in g], "layout": "mg", "megacomplex": ["m1"],
                         "dseed": int(rng.integers(2**31)), "id0": id0, "weight": "dataset" if (weights and weights[d]) else None,
                         "scale": None, "mc_scale": None})
        id0 += n * len(g)
    # idxdep: the model matrix really depends on the global index (each stacked column must meet ITS OWN matrix)
    disp = "dsp.1" if idxdep else None
    mcs = {"m1": {"labels": ["a", "b"], "rates": ["k.1", "k.2"], "disp": disp}}
    pars = {"k.1": {"value": 1.3}, "k.2": {"value": 0.2}}
    if varied_clps:
        # datasets sharing an aligned point need not have the same clps, nor list the shared ones first: a label new to the
        # point may stand before a shared one ([c, b] after [a, b]; [d, a, b])
        mcs["m2"] = {"labels": ["c", "b"], "rates": ["k.3", "k.2"], "disp": disp}
        mcs["m3"] = {"labels": ["d", "a", "b"], "rates": ["k.4", "k.1", "k.2"], "disp": disp}
        pars.update({"k.3": {"value": 0.55}, "k.4": {"value": 2.4}})
        for d, ds_ in enumerate(datasets):
            ds_["megacomplex"] = [["m1"], ["m2"], ["m3"], ["m1"]][(d + seed) % 4]
    return {"datasets": datasets, "megacomplexes": mcs,
            "global_megacomplexes": {}, "groups": {"g1": {"link_clp": True, "residual_function": "variable_projection"}},
            "parameters": dict(pars, **({"dsp.1": {"value": 0.05, "vary": False}} if idxdep else {})),
            "link_tolerance": float(tol), "link_method": method,
            "constraints": [], "relations": [], "penalties": [], "weights": [], "features": {"link_clp": True}}


def check_provider(case, rec):
    """Construct the real provider and compare its tables with the model.  -> nontrivial?"""
    from glotaran.optimization.data_provider import AlignDatasetError, DataProviderLinked

    axes = [d["g"] for d in case["datasets"]]
    tol, method = case["link_tolerance"], case["link_method"]
    outs = AL.alignments(axes, tol, method)
    nontrivial = any(0 < abs(u - v) <= tol for a, b in itertools.combinations(axes, 2) for u in a for v in b)
    scheme = S.build_scheme(case)
    group = scheme.model.get_dataset_groups()["g1"]
    group.set_parameters(scheme.parameters)
    try:
        dp = DataProviderLinked(scheme, group)
        err = None
    except AlignDatasetError:
        dp, err = None, "ambiguous"
    except Exception as e:  # noqa
        rec.violation(f"provider-raises:{type(e).__name__}:{method}", case, f"{type(e).__name__}: {str(e)[:200]}")
        return nontrivial
    rec.count("providers_checked")
    if err == "ambiguous":
        if "ambiguous" not in outs:
            rec.violation(f"spurious-AlignDatasetError:{method}", case, f"axes {axes} tol {tol}: the model finds an unambiguous alignment {outs[0]}")
        else:
            rec.count("error_cases_agreed")
        return nontrivial
    valid = [o for o in outs if o != "ambiguous"]
    if not valid:
        rec.violation(f"missing-AlignDatasetError:{method}", case, f"axes {axes} tol {tol}: two points of one dataset merge but no error was raised; aligned axis {dp.aligned_global_axis.tolist()}")
        return nontrivial
    # read the real tables
    aligned = [float(x) for x in dp.aligned_global_axis]
    labels = [d["label"] for d in case["datasets"]]
    real_assign = [[None] * len(d["g"]) for d in case["datasets"]]
    problems = []
    if any(b <= a for a, b in zip(aligned, aligned[1:])):
        problems.append(("axis-not-increasing", f"aligned axis {aligned}"))
    used = 0
    for i, x in enumerate(aligned):
        members = dp.group_definitions[dp.get_aligned_group_label(i)]
        idxs = [int(k) for k in dp.get_aligned_dataset_indices(i)]
        if len(members) != len(idxs):
            problems.append(("tables-inconsistent", f"aligned index {i}: datasets {members} but indices {idxs}"))
            continue
        stack, wstack = [], []
        for lab, k in zip(members, idxs):
            d = labels.index(lab)
            if real_assign[d][k] is not None:
                problems.append(("column-used-twice", f"{lab}[{k}] enters aligned points {real_assign[d][k]} and {x}"))
            real_assign[d][k] = x
            D, W = S.dataset_arrays(case["datasets"][d])
            col = D[:, k] * (W[:, k] if W is not None else 1.0)
            stack.append(col)
            wstack.append(W[:, k] if W is not None else np.ones(len(col)))
            used += 1
        got = np.asarray(dp.get_aligned_data(i))
        want = np.concatenate(stack)
        if got.shape != want.shape or not np.array_equal(got, want):
            problems.append(("stacked-data", f"aligned point {x}: stacked data are not exactly the columns {list(zip(members, idxs))} in dataset order"))
        else:
            rec.count("columns_conserved", len(members))
        gw = dp.get_aligned_weight(i)
        anyw = any(case["datasets"][labels.index(l)]["weight"] for l in members)
        if anyw:
            if gw is None or not np.array_equal(np.asarray(gw), np.concatenate(wstack)):
                problems.append(("aligned-weight", f"aligned point {x}: weights are not the members' weights (ones for unweighted members)"))
        elif gw is not None and not np.array_equal(np.asarray(gw), np.ones(len(want))):
            problems.append(("aligned-weight", f"aligned point {x}: weight present although no member is weighted"))
    total = sum(len(d["g"]) for d in case["datasets"])
    if used != total or any(v is None for a in real_assign for v in a):
        problems.append(("column-lost", f"{used} of {total} data columns enter the stacked problems"))
    if not problems:
        match = [o for o in valid if o[0] == aligned and o[1] == real_assign]
        if not match:
            o = valid[0]
            diffs = [(labels[d], case["datasets"][d]["g"][k], real_assign[d][k], o[1][d][k]) for d in range(len(labels))
                     for k in range(len(real_assign[d])) if real_assign[d][k] != o[1][d][k]]
            problems.append((f"assignment:{method}", f"axes {axes} tol {tol}: (dataset, point, assigned to, model says) {diffs[:4]}; aligned axis {aligned} vs {o[0]}"))
    for mech, detail in problems[:3]:
        rec.violation(mech if ":" in mech else f"{mech}:{method}", case, detail)
    return nontrivial


def check_optimize(case, rec):
    from vf.props import c03

    if len([o for o in AL.alignments([d["g"] for d in case["datasets"]], case["link_tolerance"], case["link_method"]) if o != "ambiguous"]) != 1:
        return
    if "ambiguous" in AL.alignments([d["g"] for d in case["datasets"]], case["link_tolerance"], case["link_method"]):
        return
    rec.count("optimize_checked")
    # at least 8 time points per dataset: with 3-4 the fit has no degrees of freedom left (residuals <= clps +
    # parameters) and the statistics of create_result are undefined (C13 territory, not alignment)
    ds = case["datasets"]
    idxdep = bool(ds[0]["dseed"] % 2)
    varied = bool((ds[0]["dseed"] // 2) % 2)
    if any(len(d["t"]) < 8 for d in ds) or idxdep or varied:
        big = make_case([d["g"] for d in ds], case["link_tolerance"], case["link_method"], weights=[d["weight"] for d in ds],
                        seed=ds[0]["dseed"] % 1000, nt=[max(len(d["t"]), 8 + i) for i, d in enumerate(ds)], idxdep=idxdep,
                        labels=[d["label"] for d in ds], varied_clps=varied)
        case = big
        if varied:
            rec.count("optimize_checked_varied_clp_sets")
        rec.count("optimize_checked_index_dependent" if idxdep else "optimize_checked_index_independent")
    c03.run_case(case, rec)


def subsets(grid, kmax):
    for k in range(1, kmax + 1):
        yield from itertools.combinations(grid, k)


def plan(tier, seed):
    nsh = {"quick": 16, "thorough": 32}[tier]
    return [{"shard": i, "nshards": nsh, "mode": "enum", "kmax": {"quick": 3, "thorough": 4}[tier], "npts": {"quick": 5, "thorough": 6}[tier],
             "nrand": {"quick": 120, "thorough": 3000}[tier], "nopt": {"quick": 12, "thorough": 150}[tier]} for i in range(nsh)]


def project_path(rec, rng):
    """The same linking through the project layer: Project.optimize(clp_link_tolerance=...) must hand the tolerance on
    (the aligned axis, and with it the number of clps, follows the model of this check)."""
    import contextlib, io, shutil, tempfile, warnings
    from pathlib import Path

    import xarray as xr
    from glotaran.project import Project

    root = Path(tempfile.mkdtemp(prefix="vf-c09-project-"))
    try:
        with warnings.catch_warnings(), contextlib.redirect_stdout(io.StringIO()):
            warnings.simplefilter("ignore")
            proj = Project.open(root / "p")
            axes = [[1.0, 2.0, 3.0, 4.0], [1.03, 2.03, 3.5], [0.97, 3.04, 4.6]]
            t = np.linspace(0.0, 8.0, 12)
            for k, g in enumerate(axes):
                da = xr.DataArray(rng.standard_normal((t.size, len(g))), coords=[("time", t), ("spectral", np.array(g))])
                proj.import_data(da.to_dataset(name="data"), dataset_name=f"d{k + 1}")
            (proj.get_models_directory() / "m.yml").write_text(
                "megacomplex:\n  mc:\n    type: decay-parallel\n    compartments: [s1, s2]\n    rates: [k.1, k.2]\n"
                "dataset_groups:\n  default:\n    link_clp: true\n"
                "dataset:\n  d1: {megacomplex: [mc]}\n  d2: {megacomplex: [mc]}\n  d3: {megacomplex: [mc]}\n")
            (proj.get_parameters_directory() / "p.yml").write_text("k:\n  - 1.3\n  - 0.2\n")
            for tol in (0.0, 0.05, 0.1, 0.6):
                ctx = {"axes": axes, "clp_link_tolerance": tol, "path": "Project.optimize"}
                try:
                    res = proj.optimize("m", "p", result_name=f"r{int(tol * 100)}", maximum_number_function_evaluations=1, clp_link_tolerance=tol)
                except Exception as e:  # noqa
                    outs = [o for o in AL.alignments(axes, tol, "nearest") if o != "ambiguous"]
                    if not outs or any(o == "error" for o in outs):
                        continue
                    rec.violation(f"project-path:raises:{type(e).__name__}", ctx, f"{type(e).__name__}: {str(e)[:200]}")
                    continue
                rec.count("project_path_runs")
                if float(res.scheme.clp_link_tolerance) != tol:
                    rec.violation("project-path:tolerance-not-handed-on", ctx, f"the scheme of the result carries clp_link_tolerance {res.scheme.clp_link_tolerance!r}")
                    continue
                outs = [o for o in AL.alignments(axes, tol, "nearest") if o not in ("ambiguous", "error")]
                if "ambiguous" in AL.alignments(axes, tol, "nearest") or len(outs) != 1:
                    continue
                want = 2 * len(outs[0][0])
                if int(res.number_of_clps) != want:
                    rec.violation("project-path:number-of-clps", ctx, f"number_of_clps {res.number_of_clps}, the aligned axis {outs[0][0]} has {len(outs[0][0])} points x 2 clps = {want}")
    finally:
        shutil.rmtree(root, ignore_errors=True)


def run_shard(spec, rec):
    attach(rec)
    from vf.props import c03

    c03.attach(rec)
    S.model_class()
    rng = rng_for(spec)
    if spec["shard"] == 0:
        project_path(rec, rng)
    grid = list(range(spec["npts"]))
    first = list(subsets(grid, spec["kmax"]))
    second = [tuple(v + off for v in s) for s in subsets(grid, spec["kmax"]) for off in (0.0, 0.3, 0.5)]
    idx = 0
    for a in first:
        for b in second:
            idx += 1
            if idx % spec["nshards"] != spec["shard"]:
                continue
            # per axis pair: all tolerances x methods in the thorough tier; a rotating third in quick
            combos = [(t, m) for t in TOLS for m in METHODS]
            if spec.get("tier") == "quick":
                combos = combos[idx % 3::3]
            for tol, method in combos:
                case = make_case([a, b], tol, method, seed=idx)
                nt = check_provider(case, rec)
                rec.case((a, b, tol, method), nt, sample=case if (idx + int(tol * 10)) % 20011 == 0 else None, features=[f"method={method}", f"tol={tol}"])
    rec.features["exhaustive-2-datasets"] += 1
    for i in range(spec["nrand"]):
        nds = int(rng.integers(2, 5))
        axes = []
        for d in range(nds):
            n = int(rng.integers(1, 13 if nds < 4 else 7))
            base = np.sort(rng.choice(np.arange(0, 30), n, replace=False)).astype(float) * float(rng.choice([0.5, 1.0]))
            axes.append(np.round(base + float(rng.choice([0, 0.1, 0.25, 0.3, 0.5])), 3).tolist())
        order = list(rng.permutation(nds))
        axes = [axes[k] for k in order]
        tol = float(rng.choice([0.0, 0.05, 0.1, 0.25, 0.3, 0.5, 0.75, 1.0, 2.0]))
        method = METHODS[int(rng.integers(3))]
        weights = [bool(rng.integers(2)) for _ in range(nds)]
        # the unit of the global axis is the user's: the same axes in a unit in which neighbouring points are 5e-10 apart
        # (wavelengths in metres), or far from zero (wavenumbers: 2**21 + ...).  Both maps are exact in binary floating
        # point, so every comparison with the tolerance has the same outcome as before
        if i % 5 == 2:
            f = 2.0 ** -30
            axes = [[v * f for v in a] for a in axes]
            tol = tol * f
            rec.features["axis-unit=2^-30"] += 1
        elif i % 5 == 4:
            axes = [[float(2 ** 21 + np.round(v * 4) / 4) for v in a] for a in axes]
            axes = [sorted(set(a)) for a in axes]
            tol = float(rng.choice([0.0, 0.25, 0.5, 0.75, 1.0, 2.0]))
            rec.features["axis-offset=2^21"] += 1
        labels = None
        if i % 4 in (1, 3):
            pool = COLLISION_POOLS[int(rng.integers(len(COLLISION_POOLS)))]
            labels = [pool[k] for k in rng.permutation(len(pool))[:nds]]
            if i % 4 == 1 and nds >= 3:
                # the dataset named like the concatenation of two others lives alone on its part of the axis, the two
                # others share points: two different member sets with the same joined name, and no longer name around
                labels = [pool[0], pool[1], pool[2]] + [l for l in labels if l not in pool[:3]][: nds - 3]
                axes[2] = [float(x) + 100.0 for x in axes[2]]
                axes[1] = sorted(set(axes[1]) | set(axes[0][: 1 + len(axes[0]) // 2]))
                for k in range(3, nds):
                    axes[k] = [float(x) + 200.0 + 100.0 * k for x in axes[k]]
                perm = list(rng.permutation(nds))
                labels, axes, weights = [labels[k] for k in perm], [axes[k] for k in perm], [weights[k] for k in perm]
            rec.features["colliding-labels"] += 1
        case = make_case(axes, tol, method, weights=weights, seed=int(rng.integers(2**31)), nt=rng.integers(3, 7, nds), labels=labels)
        nt = check_provider(case, rec)
        rec.case(("rand", tuple(map(tuple, axes)), tol, method, tuple(labels or ())), nt, sample=case if i == 0 else None, features=[f"random:n={nds}", f"method={method}"])
        if i < spec["nopt"]:
            check_optimize(case, rec)


def replay(case, rec):
    attach(rec)
    S.model_class()
    check_provider(case, rec)
