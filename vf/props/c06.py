"""C06 - labelled outputs follow their labels: declaration order and composition.

Monitors: recorders on MatrixProvider.calculate_dataset_matrix / combine_megacomplex_matrices and the
megacomplexes' finalize_data (evidence that composition and finalisation code was reached).
Oracles: (1) permutation (metamorphic): every declaration order that is not itself semantic is
permuted; all result variables are compared BY LABEL with the unpermuted model; cost and the
multiset of penalties agree.  (2) composition: dataset matrix[..., L] == sum_k scale_k * M_k[..., L]
from single-megacomplex evaluations.  (3) absolute per label: C04 / C05 / C07 judge what a label
denotes (a light expm check is repeated here for the permuted general decay).
"""
from __future__ import annotations

import itertools

import numpy as np
import xarray as xr

from vf.core import rng_for, time_limit, CaseTimeout

LEVEL = "exploration"
RULE = (
    "Model families over every builtin megacomplex type (decay, decay-sequential, decay-parallel, damped-oscillation, pfid, "
    "spectral, baseline, coherent-artifact, clp-guide) without IRF / Gaussian / shifted / dispersed IRF, alone and combined with "
    "shared and distinct labels; permuted: compartments + initial concentrations + K-matrix entries of general decays, compartments "
    "+ rates of parallel decays, oscillation labels/frequencies/rates together, shape dict entries, megacomplexes (+ scales) of a "
    "dataset, datasets of the model (all permutations of <= 4 labels / <= 3 megacomplexes; the chain order of a sequential "
    "megacomplex is semantic and kept).  Each permuted twin is optimised on the same data; every result variable is compared by "
    "label, penalties as multiset, cost.  Composition of the dataset matrix from single-megacomplex evaluations incl. index-"
    "dependent + independent mixes.  Non-trivial: permutation != identity and >= 2 labels with different columns; distinct = "
    "(family, IRF kind, permutation)."
)
ASSUMPTIONS = [
    "outputs indexed by an eigen-component number (component_*, rates/lifetimes of a general decay) are compared as multisets: their numbering is not a label",
    "least-squares tolerance 1e-7 of each variable's scale after a one-evaluation optimisation from identical start values",
]
MIN_NONTRIVIAL = {"quick": 60, "thorough": 600}
DECIDING = ["twins_compared", "variables_compared", "compositions_checked", "mon:calculate_dataset_matrix", "mon:combine_megacomplex_matrices"]


def attach(rec):
    from glotaran.optimization.matrix_provider import MatrixProvider
    from vf.instrument import wrap

    wrap(MatrixProvider, "calculate_dataset_matrix", rec=rec, key="mon:calculate_dataset_matrix")
    wrap(MatrixProvider, "combine_megacomplex_matrices", rec=rec, key="mon:combine_megacomplex_matrices")


def perm_apply(seq, perm):
    return [seq[i] for i in perm]


# ---------------------------------------------------------------- families: spec(perms) -> (model spec, parameter list)
IRFS = {
    "none": None,
    "gaussian": {"type": "gaussian", "center": "irf.c", "width": "irf.w"},
    "shifted": {"type": "multi-gaussian", "center": ["irf.c"], "width": ["irf.w", "irf.w2"], "shift": ["irf.s1", "irf.s2", "irf.s3", "irf.s4"]},
    "backsweep": {"type": "gaussian", "center": "irf.c", "width": "irf.w", "backsweep": True, "backsweep_period": "irf.bp"},
    "dispersed": {"type": "spectral-multi-gaussian", "center": ["irf.c"], "width": ["irf.w"], "dispersion_center": "irf.dc",
                  "center_dispersion_coefficients": ["irf.d1", "irf.d2"]},
}
IRF_PARAMS = [["irf.bp", 13.0, {"vary": False}], ["irf.c", 0.35], ["irf.w", 0.12], ["irf.w2", 0.3], ["irf.s1", 0.05], ["irf.s2", -0.03], ["irf.s3", 0.08], ["irf.s4", 0.0],
              ["irf.dc", 550.0, {"vary": False}], ["irf.d1", 0.04], ["irf.d2", -0.01]]


def family_general(irf, p_comp, p_entries, p_mc, with_extra=True):
    comps = ["s1", "s2", "s3"]
    entries = [(("s2", "s1"), "k.21"), (("s3", "s2"), "k.32"), (("s3", "s3"), "k.33"), (("s1", "s1"), "k.11")]
    jvals = {"s1": "j.1", "s2": "j.2", "s3": "j.3"}
    order = perm_apply(comps, p_comp)
    km = {k: v for k, v in perm_apply(entries, p_entries)}
    mcs = [("mc_decay", {"type": "decay", "k_matrix": ["km1"]}), ("mc_base", {"type": "baseline", "dimension": "time"})]
    if with_extra:
        mcs.append(("mc_par", {"type": "decay-parallel", "compartments": ["s3", "x1"], "rates": ["k.p1", "k.p2"]}))
    scales = {"mc_decay": "sc.1", "mc_base": "sc.2", "mc_par": "sc.3"}
    mcs = perm_apply(mcs, p_mc[: len(mcs)] if len(p_mc) >= len(mcs) else list(range(len(mcs))))
    spec = {"megacomplex": dict(mcs), "k_matrix": {"km1": {"matrix": km}},
            "initial_concentration": {"j1": {"compartments": order, "parameters": [jvals[c] for c in order]}},
            "dataset": {"d1": {"megacomplex": [m for m, _ in mcs], "megacomplex_scale": [scales[m] for m, _ in mcs], "initial_concentration": "j1"}}}
    params = [["k.21", 1.1], ["k.32", 0.35], ["k.33", 0.08], ["k.11", 0.2], ["j.1", 1.0, {"vary": False}], ["j.2", 0.4, {"vary": False}], ["j.3", 0.0, {"vary": False}],
              ["k.p1", 0.6], ["k.p2", 0.03], ["sc.1", 1.0, {"vary": False}], ["sc.2", 0.7, {"vary": False}], ["sc.3", 1.3, {"vary": False}]]
    if with_extra and irf == "none":
        pass
    return spec, params


def family_parallel_artifact(irf, p_comp, p_mc):
    comps = ["a", "b", "c"]
    rates = {"a": "k.a", "b": "k.b", "c": "k.c"}
    order = perm_apply(comps, p_comp)
    mcs = [("mc_par", {"type": "decay-parallel", "compartments": order, "rates": [rates[c] for c in order]}),
           ("mc_seq", {"type": "decay-sequential", "compartments": ["q1", "b"], "rates": ["k.q1", "k.q2"]})]
    if irf != "none":
        mcs.append(("mc_art", {"type": "coherent-artifact", "order": 2}))
    mcs = perm_apply(mcs, [i for i in p_mc if i < len(mcs)])
    spec = {"megacomplex": dict(mcs), "dataset": {"d1": {"megacomplex": [m for m, _ in mcs]}}}
    # with a back-sweeping IRF one compartment practically does not decay (rate x period <= 1e-3: the library drops the
    # back-sweep term for it): the branch taken for one compartment must not depend on where it is declared
    params = [["k.a", 1.4], ["k.b", 0.4], ["k.c", 1e-9 if irf == "backsweep" else 0.05, {"vary": irf != "backsweep"}], ["k.q1", 2.2], ["k.q2", 0.15]]
    return spec, params


def family_oscillation(irf, p_osc, p_mc, pfid=False):
    # the second oscillation always has a negative rate (growing / anti-causal branch of the implementation), so a
    # damped-oscillation megacomplex mixes both rate signs in every declaration order
    labels = ["o1", "o2", "o3"]
    freq = {"o1": "f.1", "o2": "f.2", "o3": "f.3"}
    rate = {"o1": "g.1", "o2": "g.2", "o3": "g.3"}
    order = perm_apply(labels, p_osc)
    t = "pfid" if pfid else "damped-oscillation"
    mcs = [("mc_osc", {"type": t, "labels": order, "frequencies": [freq[l] for l in order], "rates": [rate[l] for l in order]}),
           ("mc_seq", {"type": "decay-sequential", "compartments": ["s1", "s2"], "rates": ["k.1", "k.2"]})]
    mcs = perm_apply(mcs, [i for i in p_mc if i < 2])
    spec = {"megacomplex": dict(mcs), "dataset": {"d1": {"megacomplex": [m for m, _ in mcs]}}}
    sign = -1.0 if pfid else 1.0
    params = [["f.1", 520.0 if pfid else 55.0], ["f.2", 580.0 if pfid else 130.0], ["f.3", 610.0 if pfid else 210.0], ["g.1", sign * 0.8], ["g.2", -0.3], ["g.3", sign * 1.5],
              ["k.1", 1.2], ["k.2", 0.1]]
    return spec, params


def family_split(irf, p_comp, p_mc):
    # two decay megacomplexes whose k-matrices cover disjoint parts of ONE initial concentration: every megacomplex has
    # to pick the entries declared for its own compartments, wherever they stand in the item's list
    comps = ["s1", "s2", "s3", "s4"]
    jvals = {"s1": "j.1", "s2": "j.2", "s3": "j.3", "s4": "j.4"}
    order = perm_apply(comps, p_comp)
    mcs = [("mc_one", {"type": "decay", "k_matrix": ["km1"]}), ("mc_two", {"type": "decay", "k_matrix": ["km2"]})]
    mcs = perm_apply(mcs, p_mc)
    spec = {"megacomplex": dict(mcs),
            "k_matrix": {"km1": {"matrix": {("s2", "s1"): "k.21", ("s2", "s2"): "k.22"}}, "km2": {"matrix": {("s4", "s3"): "k.43", ("s4", "s4"): "k.44"}}},
            "initial_concentration": {"j1": {"compartments": order, "parameters": [jvals[x] for x in order]}},
            "dataset": {"d1": {"megacomplex": [m for m, _ in mcs], "initial_concentration": "j1"}}}
    params = [["k.21", 1.3], ["k.22", 0.25], ["k.43", 0.6], ["k.44", 0.04],
              ["j.1", 1.0, {"vary": False}], ["j.2", 0.3, {"vary": False}], ["j.3", 0.55, {"vary": False}], ["j.4", 0.15, {"vary": False}]]
    return spec, params


MIXED_POOL = {
    "pfid": ("mc_pfid", {"type": "pfid", "labels": ["o1", "o2"], "frequencies": ["f.1", "f.2"], "rates": ["g.1", "g.2"]}),
    "par": ("mc_par", {"type": "decay-parallel", "compartments": ["a", "b"], "rates": ["k.a", "k.b"]}),
    "seq": ("mc_seq", {"type": "decay-sequential", "compartments": ["q1", "b"], "rates": ["k.q1", "k.q2"]}),
    "par2": ("mc_par2", {"type": "decay-parallel", "compartments": ["b", "c"], "rates": ["k.c", "k.d"]}),
    "base": ("mc_base", {"type": "baseline", "dimension": "time"}),
    "art": ("mc_art", {"type": "coherent-artifact", "order": 2}),
    "osc": ("mc_osc", {"type": "damped-oscillation", "labels": ["o1", "o3"], "frequencies": ["f.3", "f.4"], "rates": ["g.3", "g.4"]}),
}
MIXED_COMBOS = [c for c in itertools.combinations(sorted(MIXED_POOL), 3)]
MIXED_QUICK = [("par", "pfid", "seq"), ("par", "par2", "pfid"), ("art", "par", "seq"), ("base", "pfid", "seq"), ("osc", "par2", "pfid")]


def family_mixed(irf, combo, p_mc, scaled):
    """Three megacomplexes that share clp labels and differ in index dependence (pfid is always per-index, a
    baseline never, the others only with a shifted / dispersed IRF), in every declaration order."""
    mcs = perm_apply([MIXED_POOL[c] for c in combo], p_mc)
    scales = {"mc_pfid": "sc.1", "mc_par": "sc.2", "mc_seq": "sc.3", "mc_par2": "sc.1", "mc_base": "sc.2", "mc_art": "sc.3", "mc_osc": "sc.2"}
    d = {"megacomplex": [m for m, _ in mcs]}
    if scaled:
        d["megacomplex_scale"] = [scales[m] for m, _ in mcs]
    spec = {"megacomplex": dict(mcs), "dataset": {"d1": d}}
    params = [["f.1", 520.0], ["f.2", 580.0], ["g.1", -0.8], ["g.2", -0.3], ["f.3", 55.0], ["f.4", 130.0], ["g.3", 0.8], ["g.4", 0.3],
              ["k.a", 1.4], ["k.b", 0.4], ["k.c", 0.05], ["k.d", 3.1], ["k.q1", 2.2], ["k.q2", 0.15],
              ["sc.1", 1.0, {"vary": False}], ["sc.2", 0.7, {"vary": False}], ["sc.3", 1.3, {"vary": False}]]
    return spec, params


def family_spectral(irf, p_shape, p_comp):
    comps = ["s1", "s2", "s3"]
    order = perm_apply(comps, p_comp)
    shapes = [("s1", "sh1"), ("s2", "sh2"), ("s3", "sh3")]
    shp = dict(perm_apply(shapes, p_shape))
    spec = {"megacomplex": {"mc_par": {"type": "decay-parallel", "compartments": order, "rates": [f"k.{c}" for c in order]},
                            "mc_spec": {"type": "spectral", "shape": shp}},
            "shape": {"sh1": {"type": "gaussian", "amplitude": "sp.a1", "location": "sp.l1", "width": "sp.w1"},
                      "sh2": {"type": "skewed-gaussian", "amplitude": "sp.a2", "location": "sp.l2", "width": "sp.w2", "skewness": "sp.b2"},
                      "sh3": {"type": "gaussian", "amplitude": "sp.a3", "location": "sp.l3", "width": "sp.w3"}},
            "dataset": {"d1": {"megacomplex": ["mc_par"], "global_megacomplex": ["mc_spec"]}}}
    params = [["k.s1", 1.2], ["k.s2", 0.3], ["k.s3", 0.04], ["sp.a1", 3.0, {"vary": False}], ["sp.l1", 460.0], ["sp.w1", 50.0], ["sp.a2", 5.0, {"vary": False}], ["sp.l2", 540.0], ["sp.w2", 70.0],
              ["sp.b2", 0.2], ["sp.a3", 2.0, {"vary": False}], ["sp.l3", 640.0], ["sp.w3", 40.0]]
    return spec, params


def family_two_datasets(irf, p_ds, p_comp):
    comps = ["a", "b", "c"]
    order = perm_apply(comps, p_comp)
    # the second dataset declares the shared compartments in the opposite order, after one of its own: the linked
    # (stacked) label order then differs from this dataset's order
    rev = ["z"] + order[::-1]
    ds = [("d1", {"megacomplex": ["mc_par"]}), ("d2", {"megacomplex": ["mc_rev", "mc_base"], "scale": "sc.d2"})]
    ds = perm_apply(ds, p_ds)
    spec = {"megacomplex": {"mc_par": {"type": "decay-parallel", "compartments": order, "rates": [f"k.{c}" for c in order]},
                            "mc_rev": {"type": "decay-parallel", "compartments": rev, "rates": [f"k.{c}" for c in rev]},
                            "mc_base": {"type": "baseline", "dimension": "time"}},
            "dataset": dict(ds), "dataset_groups": {"default": {"link_clp": True}},
            "clp_relations": [{"source": "a", "target": "c", "parameter": "rel", "interval": [(500, 600)]}]}
    params = [["k.a", 1.4], ["k.b", 0.4], ["k.c", 0.05], ["k.z", 3.3], ["sc.d2", 1.7], ["rel", 0.5, {"vary": False}]]
    return spec, params


def family_clp_guide(irf, p_comp):
    comps = ["a", "b"]
    order = perm_apply(comps, p_comp)
    spec = {"megacomplex": {"mc_par": {"type": "decay-parallel", "compartments": order, "rates": [f"k.{c}" for c in order]},
                            "mc_guide": {"type": "clp-guide", "dimension": "time", "target": "a"}},
            "dataset": {"d1": {"megacomplex": ["mc_par"]}, "dguide": {"megacomplex": ["mc_guide"]}},
            "dataset_groups": {"default": {"link_clp": True}}}
    params = [["k.a", 1.4], ["k.b", 0.2]]
    return spec, params


# ---------------------------------------------------------------- running
def make_data(rng, spec, nt=40, ng=4, guide=False):
    t = np.round(np.sort(np.concatenate([[-0.4, 0.0], rng.uniform(-0.4, 0.0, 6), rng.uniform(0.0, 12, nt - 8)])), 6)
    g = np.array([480.0, 540.0, 590.0, 650.0])[:ng]
    out = {}
    for i, label in enumerate(sorted(spec["dataset"])):
        r = np.random.default_rng(1000 + i)
        if label == "dguide":
            da = xr.DataArray(r.standard_normal((1, g.size)), coords=[("time", np.array([0.0])), ("spectral", g)])
        else:
            da = xr.DataArray(r.standard_normal((t.size, g.size)), coords=[("time", t), ("spectral", g)])
        out[label] = da.to_dataset(name="data")
    return out


def run(spec, params, irf, data):
    from glotaran.optimization.optimize import optimize
    from glotaran.parameter import Parameters
    from glotaran.project import Scheme
    from vf.gen.simple import all_builtin_model_class

    spec = dict(spec)
    pl = list(params)
    if irf != "none":
        spec["irf"] = {"i1": IRFS[irf]}
        spec["dataset"] = {k: (dict(v, irf="i1") if k != "dguide" else v) for k, v in spec["dataset"].items()}
        pl += IRF_PARAMS
    model = all_builtin_model_class()(**spec)
    scheme = Scheme(model=model, parameters=Parameters.from_list(pl), data=data, maximum_number_function_evaluations=1, add_svd=False)
    return optimize(scheme, verbose=False, raise_exception=True)


LABEL_DIMS_SKIP = ("component_",)


def compare_results(base, twin, rec, ctx, tag):
    """All variables of all datasets by label."""
    bad = []
    rank_deficient = False
    for label in base.data:
        a, b = base.data[label], twin.data[label]
        # clps of an ill-conditioned matrix are only determined up to kappa * rounding
        mm = np.asarray(a["matrix"].values, dtype=float)
        mm = mm.reshape(-1, mm.shape[-1]) if mm.ndim == 3 else mm
        m3 = np.asarray(a["matrix"].values, dtype=float)
        kap = 0.0
        for blk in (m3 if m3.ndim == 3 else [m3]):
            sv = np.linalg.svd(blk, compute_uv=False)
            kap = max(kap, float(sv[0] / sv[-1]) if sv[-1] > 0 else float("inf"))
        kap_factor = max(1.0, kap / 1e5)
        clp_derived = {"clp", "baseline", "coherent_artifact_associated_spectra"}
        deficient = not np.isfinite(kap) or kap > 1e12
        if deficient:
            # the linear solve (and with it cost, residual, clps, spectra) is outside C01/C06 for a rank-deficient
            # matrix; what a label denotes in the model matrix is still compared
            rec.skip("dataset matrix numerically rank deficient: only model-matrix outputs compared")
            rank_deficient = True
        for name in a.data_vars:
            if deficient and not (name in ("matrix", "species_concentration") or name.endswith(("_cos", "_sin", "_concentration", "_response"))):
                continue
            if name not in b:
                bad.append((f"missing-variable:{name}", f"{label}: variable {name} only present for one declaration order"))
                continue
            va, vb = a[name], b[name]
            if any(str(d).startswith(LABEL_DIMS_SKIP) for d in va.dims):
                continue
            if set(va.dims) != set(vb.dims):
                bad.append((f"dims:{name}", f"{label}.{name}: dims {va.dims} vs {vb.dims}"))
                continue
            try:
                sel = {}
                for d in va.dims:
                    if d in va.coords and va.coords[d].dtype.kind in "UOS":
                        if sorted(map(str, va.coords[d].values)) != sorted(map(str, vb.coords[d].values)):
                            raise KeyError(f"label sets differ on {d}: {list(va.coords[d].values)} vs {list(vb.coords[d].values)}")
                        sel[d] = va.coords[d].values
                vb2 = vb.sel(sel).transpose(*va.dims)
            except Exception as e:  # noqa
                bad.append((f"labels:{name}", f"{label}.{name}: {e}"))
                continue
            x, y = np.asarray(va.values, dtype=float), np.asarray(vb2.values, dtype=float)
            if x.shape != y.shape:
                bad.append((f"shape:{name}", f"{label}.{name}: {x.shape} vs {y.shape}"))
                continue
            rec.count("variables_compared")
            if (np.isnan(x) != np.isnan(y)).any():
                bad.append((f"nan-pattern:{name}", f"{label}.{name}: NaN entries differ between declaration orders"))
                continue
            scale = max(np.nanmax(np.abs(x)) if x.size else 0.0, 1e-12)
            if name.endswith("_phase"):
                d = np.abs(np.angle(np.exp(1j * (x - y))))
                dev = float(np.nanmax(d)) if d.size else 0.0
                scale = 1.0
            else:
                dev = float(np.nanmax(np.abs(x - y))) if x.size else 0.0
            tolv = 1e-7 * scale * (kap_factor if name in clp_derived or name.startswith(("species_associated", "decay_associated")) or name.endswith(("_associated_spectra", "_phase")) else 1.0)
            rec.slack("by_label", dev / tolv)
            if dev > tolv:
                bad.append((f"value:{name}", f"{label}.{name} selected by label differs between declaration orders by {dev:.3e} (scale {scale:.3e})"))
        # coordinates carrying parameters per label (e.g. damped_oscillation_frequency)
        for cname in a.coords:
            ca = a.coords[cname]
            if cname in b.coords and ca.dims and len(ca.dims) == 1 and ca.dims[0] in a.coords and a.coords[ca.dims[0]].dtype.kind in "UOS" and ca.dtype.kind == "f":
                d = ca.dims[0]
                if any(str(d).startswith(x) for x in LABEL_DIMS_SKIP):
                    continue
                try:
                    cb = b.coords[cname].sel({d: a.coords[d].values})
                    if not np.allclose(ca.values, cb.values, rtol=1e-7, atol=1e-12):
                        bad.append((f"coord:{cname}", f"{label}: coordinate {cname} by label differs: {ca.values} vs {cb.values}"))
                except Exception as e:  # noqa
                    bad.append((f"coord:{cname}", f"{label}: {e}"))
    if not rank_deficient and abs(float(base.cost) - float(twin.cost)) > 1e-7 * max(abs(float(base.cost)), 1e-12):
        bad.append(("cost", f"cost {float(base.cost)!r} vs {float(twin.cost)!r}"))
    pa = sorted(float(x) for grp in (base.additional_penalty or []) for x in np.atleast_1d(grp))
    pb = sorted(float(x) for grp in (twin.additional_penalty or []) for x in np.atleast_1d(grp))
    if not rank_deficient and (len(pa) != len(pb) or any(abs(u - v) > 1e-7 * max(abs(u), 1e-12) for u, v in zip(pa, pb))):
        bad.append(("penalties", f"{pa} vs {pb}"))
    seen = set()
    for mech, detail in bad:
        if mech not in seen:
            seen.add(mech)
            rec.violation(f"{tag}:{mech}", ctx, detail)
    return not bad


def check_composition(spec, params, irf, data, rec, ctx):
    """dataset matrix[..., L] == sum_k scale_k * M_k[..., L] from single-megacomplex evaluations."""
    from glotaran.model.item import fill_item
    from glotaran.optimization.matrix_provider import MatrixProvider
    from glotaran.parameter import Parameters
    from vf.gen.simple import all_builtin_model_class

    spec = dict(spec)
    pl = list(params)
    if irf != "none":
        spec["irf"] = {"i1": IRFS[irf]}
        spec["dataset"] = {k: (dict(v, irf="i1") if k != "dguide" else v) for k, v in spec["dataset"].items()}
        pl += IRF_PARAMS
    model = all_builtin_model_class()(**spec)
    p = Parameters.from_list(pl)
    for label in spec["dataset"]:
        dm = fill_item(model.dataset[label], model, p)
        t = data[label].coords["time"].values
        g = data[label].coords["spectral"].values
        full = MatrixProvider.calculate_dataset_matrix(dm, g, t)
        rec.count("compositions_checked")
        expect = {}
        for k, mc in enumerate(dm.megacomplex):
            labels, m = mc.calculate_matrix(dm, g, t)
            m = np.asarray(m, dtype=float)
            sc = float(dm.megacomplex_scale[k]) if dm.megacomplex_scale is not None else 1.0
            if m.ndim == 2:
                m = np.broadcast_to(m, (len(g),) + m.shape)
            for j, L in enumerate(labels):
                expect[L] = expect.get(L, 0.0) + sc * m[:, :, j]
        got = np.asarray(full.matrix, dtype=float)
        if got.ndim == 2:
            got = np.broadcast_to(got, (len(g),) + got.shape)
        if sorted(full.clp_labels) != sorted(expect):
            rec.violation("composition:labels", ctx, f"{label}: {full.clp_labels} vs {sorted(expect)}")
            continue
        for j, L in enumerate(full.clp_labels):
            d = np.abs(got[:, :, j] - expect[L]).max()
            if d > 1e-12 * max(np.abs(expect[L]).max(), 1e-300):
                rec.violation("composition:values", ctx, f"{label}: combined column {L} differs from sum of megacomplex-scaled contributions by {d:.3e}")


def plan(tier, seed):
    fams = []
    for irf in IRFS:
        fams.append(("general", irf))
        fams.append(("parallel_artifact", irf))
        fams.append(("oscillation", irf))
        fams.append(("two_datasets", irf))
    for irf in ("gaussian", "shifted", "dispersed"):
        fams.append(("pfid", irf))
    fams += [("spectral", "none"), ("spectral", "gaussian"), ("spectral", "dispersed"), ("spectral", "shifted"), ("clp_guide", "none"), ("split", "none"), ("split", "gaussian")]
    combos = MIXED_QUICK if tier == "quick" else MIXED_COMBOS
    for k, combo in enumerate(combos):
        for irf in (("gaussian", "shifted") if tier == "thorough" else (("gaussian",) if k % 2 == 0 else ("shifted",))):
            fams.append(("mixed:" + "+".join(combo), irf))
    return [{"shard": i, "family": f, "irf": irf, "nperm": {"quick": 10, "thorough": 200}[tier]} for i, (f, irf) in enumerate(fams)]


def twins(family, irf, rng, nperm):
    """-> list of (description, spec, params) with the identity first."""
    p3 = list(itertools.permutations(range(3)))
    p2 = list(itertools.permutations(range(2)))
    p4 = list(itertools.permutations(range(4)))
    out = []
    if family == "general":
        combos = [(a, b, c) for a in p3 for b in p4 for c in p3]
        build = lambda a, b, c: family_general(irf, a, b, c)  # noqa: E731
    elif family == "parallel_artifact":
        combos = [(a, c) for a in p3 for c in p3]
        build = lambda a, c: family_parallel_artifact(irf, a, c)  # noqa: E731
    elif family in ("oscillation", "pfid"):
        combos = [(a, c) for a in p3 for c in p2]
        build = lambda a, c: family_oscillation(irf, a, c, pfid=family == "pfid")  # noqa: E731
    elif family == "spectral":
        combos = [(a, c) for a in p3 for c in p3]
        build = lambda a, c: family_spectral(irf, a, c)  # noqa: E731
    elif family.startswith("mixed:"):
        combo = tuple(family.split(":")[1].split("+"))
        combos = [(c, sc) for sc in (True, False) for c in p3]
        build = lambda c, sc: family_mixed(irf, combo, c, sc)  # noqa: E731
    elif family == "split":
        combos = [(a, c) for a in p4 for c in p2]
        build = lambda a, c: family_split(irf, a, c)  # noqa: E731
    elif family == "two_datasets":
        combos = [(a, c) for a in p2 for c in p3]
        build = lambda a, c: family_two_datasets(irf, a, c)  # noqa: E731
    else:
        combos = [(a,) for a in p2]
        build = lambda a: family_clp_guide(irf, a)  # noqa: E731
    ident = combos[0]
    rest = combos[1:]
    if len(rest) > nperm and not family.startswith("mixed:"):
        rest = [rest[i] for i in sorted(rng.choice(len(rest), nperm, replace=False))]
    for c in [ident] + rest:
        spec, params = build(*c)
        out.append(([list(x) if isinstance(x, (tuple, list)) else x for x in c], spec, params))
    return out


def run_shard(spec, rec):
    attach(rec)
    rng = rng_for(spec)
    family, irf = spec["family"], spec["irf"]
    tw = twins(family, irf, rng, spec["nperm"])
    base = None
    data = None
    for i, (perm, mspec, params) in enumerate(tw):
        ctx = {"family": family, "irf": irf, "permutation": perm}
        if data is None:
            data = make_data(rng, mspec)
        try:
            with time_limit(90):
                res = run(mspec, params, irf, data)
        except (Exception, CaseTimeout) as e:  # noqa
            import traceback

            fr = [f for f in traceback.extract_tb(e.__traceback__) if "/glotaran/" in f.filename]
            where = f"{fr[-1].filename.split('/glotaran/')[-1]}:{fr[-1].name}" if fr else "?"
            rec.violation(f"{family}:raises:{type(e).__name__}:{where}", ctx, f"{type(e).__name__}: {str(e)[:300]}")
            rec.case((family, irf, str(perm)), False)
            continue
        if base is None or (family.startswith("mixed:") and perm[0] == [0, 1, 2]):
            base = res
            check_composition(mspec, params, irf, data, rec, ctx)
            rec.case((family, irf, "identity", str(perm)), False, sample=ctx, features=[f"family={family}", f"irf={irf}"])
            continue
        rec.count("twins_compared")
        compare_results(base, res, rec, ctx, family)
        if i % 4 == 0 or family.startswith("mixed:"):
            check_composition(mspec, params, irf, data, rec, ctx)
        rec.case((family, irf, str(perm)), True, features=[f"family={family}", f"irf={irf}"])


def replay(case, rec):
    rec.note("C06 cases are regenerated per family: ./check C06")
