"""C12 - expression parameters always equal their expression.

Monitors: postconditions (record-and-return-True) on Parameters.__init__,
update_parameter_expression, set_from_label_and_value_arrays, set_from_history, copy.
Oracle: vf.ref.expr - every expression parameter must equal its expression tree evaluated on the
CURRENT values of the parameters it references; a second update must change nothing.
"""
from __future__ import annotations

import itertools
import os

import numpy as np

from vf.core import rng_for
from vf.ref import expr as X

LEVEL = "exploration"
RULE = (
    "Parameter sets of 6 parameters: every acyclic dependency graph over k<=4 expression parameters (each referencing any "
    "non-empty subset of earlier-in-dependency expression parameters plus optionally a plain one) x every declaration order "
    "(all 720 permutations in the thorough tier, a seeded sample in quick), expression bodies from a grammar (+ - * /, exp "
    "log sqrt sin abs, constants, flat and nested labels), built through the constructor / from_list / from_dict / yml_str / "
    "csv / dataframe, followed by optimiser-style updates of the free parameters (optimiser space, non-negative = log), "
    "copy() and history restore; plus real optimisations whose parameter sets contain chained expressions. "
    "Non-trivial: an expression references an expression parameter declared later, or an update changes a referenced value; "
    "distinct = (dependency graph, declaration order, constructor)."
)
ASSUMPTIONS = [
    "numpy elementary functions and Python float arithmetic are the trusted base of the independent evaluator",
    "cyclic expression graphs are outside the property",
]
MIN_NONTRIVIAL = {"quick": 800, "thorough": 20000}
DECIDING = ["post:__init__", "post:update_parameter_expression", "post:set_from_label_and_value_arrays", "consistency_checks",
            "post:copy", "post:set_from_history"]

LABELS = ["a", "b.1", "rates.k1", "g.sub.2", "c", "d.x"]
EXPR_TREES: dict[str, tuple] = {}


# ---------------------------------------------------------------- oracle
def state(params):
    return {p.label: float(p.value) for p in params.all()}


def expr_of(p):
    t = EXPR_TREES.get(p.expression)
    if t is not None:
        return (lambda v: X.evaluate(t, v)), X.refs(t)
    return (lambda v: X.eval_text(p.expression, v)), X.refs_text(p.expression)


def inconsistent(params):
    """-> list of (label, have, want) where the local consistency condition fails."""
    vals = state(params)
    out = []
    for p in params.all():
        if p.expression is None:
            continue
        f, rs = expr_of(p)
        try:
            with np.errstate(all="ignore"):
                want = float(f(vals))
        except Exception:  # noqa
            continue
        scale = max([abs(vals[r]) for r in rs if r in vals and vals[r] == vals[r]] + [0.0])
        if not X.close(vals[p.label], want, scale):
            out.append((p.label, vals[p.label], want))
    return out


def forward_refs(params):
    """F8 predicate: an expression references an expression parameter declared later."""
    order = [p.label for p in params.all()]
    isexpr = {p.label: p.expression is not None for p in params.all()}
    for p in params.all():
        if p.expression is None:
            continue
        _, rs = expr_of(p)
        for r in rs:
            if r in isexpr and isexpr[r] and order.index(r) > order.index(p.label):
                return True
    return False


def single_pass_model(params, before):
    """F8 bug model: one pass in declaration order starting from the values `before`."""
    vals = dict(before)
    for p in params.all():
        if p.expression is None:
            continue
        f, _ = expr_of(p)
        with np.errstate(all="ignore"):
            vals[p.label] = float(f(vals))
    return vals


class Monitor:
    def __init__(self, rec):
        self.rec = rec
        self.ctx = {}
        self.before = {}

    def check(self, params, where, before=None):
        self.rec.count("consistency_checks")
        bad = inconsistent(params)
        if not bad:
            return True
        finding = None
        if forward_refs(params) and before is not None:
            pred = single_pass_model(params, before)
            now = state(params)
            if all(X.close(now[k], pred[k]) for k in now):
                finding = "F8"
        self.rec.violation(
            f"{'F8:' if finding else ''}stale-expression:{where}",
            dict(self.ctx, where=where),
            "; ".join(f"{l}={h!r} but expression gives {w!r}" for l, h, w in bad[:4]),
            finding,
        )
        return False


def attach(rec):
    from glotaran.parameter import Parameters
    from vf.instrument import ensure, wrap

    mon = Monitor(rec)

    def after_init(a, k, out, exc, tok):
        rec.count("post:__init__")
        if exc is None:
            self = a[0]
            before = {p.label: float(p.value) for p in self.all()}
            # values before the constructor's update are unknown for expression parameters that were
            # evaluated; the bug model for construction starts from the declared (default NaN) values
            decl = {l: (v if self.get(l).expression is None else mon.ctx.get("declared", {}).get(l, float("nan"))) for l, v in before.items()}
            mon.check(self, "construction", decl)

    wrap(Parameters, "__init__", after=after_init)

    def snap(self):
        return state(self)

    def post_update(self, OLD):
        rec.count("post:update_parameter_expression")
        mon.check(self, "update_parameter_expression", OLD.before)
        return True

    ensure(Parameters, "update_parameter_expression", post_update, snapshot=snap, snapshot_name="before")

    def post_set(self, labels, values, OLD):
        rec.count("post:set_from_label_and_value_arrays")
        before = dict(OLD.before)
        for l, v in zip(labels, values):
            p = self.get(l)
            before[l] = float(np.exp(v)) if p.non_negative else float(v)
        mon.check(self, "set_from_label_and_value_arrays", before)
        return True

    ensure(Parameters, "set_from_label_and_value_arrays", post_set, snapshot=snap, snapshot_name="before")

    def post_hist(self):
        rec.count("post:set_from_history")
        mon.check(self, "set_from_history")
        return True

    ensure(Parameters, "set_from_history", post_hist)

    def post_copy(self, result):
        rec.count("post:copy")
        mon.check(result, "copy", {p.label: float(p.value) for p in self.all()})
        a, b = state(self), state(result)
        if list(a) != list(b) or not all(X.close(a[k], b[k]) for k in a):
            rec.violation("copy-differs", dict(mon.ctx), f"{a} vs {b}")
        return True

    ensure(Parameters, "copy", post_copy)
    return mon


# ---------------------------------------------------------------- generators
def graphs(k):
    """All reference-set assignments: E_i references a non-empty subset of {E_0..E_{i-1}} u {plain?}."""
    opts = []
    for i in range(k):
        o = []
        for mask in range(2**i):
            es = [j for j in range(i) if mask >> j & 1]
            for plain in (False, True):
                if es or plain:
                    o.append((tuple(es), plain))
        opts.append(o)
    return itertools.product(*opts)


def build_tree(rng, refs_):
    t = ("ref", refs_[0])
    for r in refs_[1:]:
        t = ("bin", str(rng.choice(["+", "-", "*", "/"])), t, ("ref", r)) if rng.integers(2) else \
            ("bin", str(rng.choice(["+", "*"])), ("ref", r), t)
    c = int(rng.integers(5))
    if c == 0:
        t = ("fn", str(rng.choice(["exp", "sqrt", "log", "sin", "abs"])), t)
    elif c == 1:
        t = ("bin", str(rng.choice(["+", "*"])), t, ("const", float(rng.choice([2, 0.5, 1.5, 3]))))
    elif c == 2:
        t = ("bin", "+", ("fn", "sin", t), ("const", 2.0))
    return t


def make_case(rng, k, graph, order, ctor):
    """-> JSON case: labels in declaration order, plain values, expression trees."""
    perm_labels = [LABELS[i] for i in rng.permutation(6)]
    exprs_l, plains_l = perm_labels[:k], perm_labels[k:]
    plain = {l: float(rng.uniform(0.5, 3.0)) for l in plains_l}
    # the non-negative flag is legal on expression parameters too (it only matters for what a history row stores)
    nonneg = [l for l in plains_l if rng.integers(3) == 0] + [l for l in exprs_l if rng.integers(4) == 0]
    fixed = [l for l in plains_l if l not in nonneg and rng.integers(4) == 0]
    for _try in range(30):
        trees, vals, ok = {}, dict(plain), True
        for i, (es, pl) in enumerate(graph):
            rs = [exprs_l[j] for j in es] + ([str(rng.choice(plains_l))] if pl else [])
            rng.shuffle(rs)
            t = build_tree(rng, rs)
            with np.errstate(all="ignore"):
                v = float(X.evaluate(t, vals))
            if not (np.isfinite(v) and 1e-3 < abs(v) < 1e3):
                ok = False
                break
            trees[exprs_l[i]] = t
            vals[exprs_l[i]] = v
        if ok:
            break
    else:
        return None
    decl = [(exprs_l + plains_l)[i] for i in order] if order is not None else list(rng.permutation(exprs_l + plains_l))
    return {"labels": [str(x) for x in decl], "plain": plain, "trees": trees, "nonneg": nonneg, "fixed": fixed,
            "ctor": ctor, "k": k, "graph": [list(map(list, (g[0],))) + [g[1]] for g in graph],
            "useed": int(rng.integers(2**31))}


def construct(case):
    from glotaran.io import load_parameters, save_parameters
    from glotaran.parameter import Parameter, Parameters

    def opts(l):
        o = {}
        if l in case["trees"]:
            o["expr"] = X.to_text(case["trees"][l])
        if l in case["nonneg"]:
            o["non-negative"] = True
        if l in case["fixed"]:
            o["vary"] = False
        return o

    for l, t in case["trees"].items():
        EXPR_TREES[X.to_text(t)] = t
    ctor = case["ctor"]
    labels = case["labels"]
    if ctor in ("direct", "csv", "dataframe"):
        ps = {}
        for l in labels:
            kw = {"label": l}
            if l in case["plain"]:
                kw["value"] = case["plain"][l]
            o = opts(l)
            if "expr" in o:
                kw["expression"] = o["expr"]
            if o.get("non-negative"):
                kw["non_negative"] = True
            if o.get("vary") is False:
                kw["vary"] = False
            ps[l] = Parameter(**kw)
        p = Parameters(ps)
        if ctor == "dataframe":
            return Parameters.from_dataframe(p.to_dataframe())
        if ctor == "csv":
            path = os.path.join(os.environ.get("VF_SCRATCH", "."), "c12.csv")
            save_parameters(p, path, allow_overwrite=True)
            return load_parameters(path)
        return p
    # grouped constructors: declaration order is by group of first appearance
    groups: dict[str, list] = {}
    for l in labels:
        grp, short = (l.rsplit(".", 1) + [None])[:2] if "." in l else ("", l)
        item = [short] + ([case["plain"][l]] if l in case["plain"] else []) + ([opts(l)] if opts(l) else [])
        groups.setdefault(grp, []).append(item)
    if ctor == "dict":
        d: dict = {}
        flat = groups.pop("", [])
        for g, items in groups.items():
            node = d
            parts = g.split(".")
            for part in parts[:-1]:
                node = node.setdefault(part, {})
            node[parts[-1]] = items
        if flat:
            d["top"] = flat  # flat labels cannot live beside groups in a dict; give them a group
            for l in list(case["trees"]):
                pass
        return Parameters.from_dict(d)
    if ctor == "yml":
        import yaml

        d = {}
        flat = groups.pop("", [])
        for g, items in groups.items():
            node = d
            parts = g.split(".")
            for part in parts[:-1]:
                node = node.setdefault(part, {})
            node[parts[-1]] = items
        if flat:
            d["top"] = flat
        return load_parameters(yaml.safe_dump(d, sort_keys=False), format_name="yml_str")
    raise ValueError(ctor)


def relabel_for_groups(case):
    """dict/yml constructors need every label inside a group: flat labels 'a','c' -> 'top.a','top.c'."""
    m = {l: (l if "." in l else f"top.{l}") for l in case["labels"]}

    def rt(t):
        if t[0] == "ref":
            return ("ref", m[t[1]])
        if t[0] == "const":
            return t
        if t[0] == "bin":
            return ("bin", t[1], rt(t[2]), rt(t[3]))
        return ("fn", t[1], rt(t[2]))

    c = dict(case)
    c["labels"] = [m[l] for l in case["labels"]]
    c["plain"] = {m[l]: v for l, v in case["plain"].items()}
    c["trees"] = {m[l]: rt(t) for l, t in case["trees"].items()}
    c["nonneg"] = [m[l] for l in case["nonneg"]]
    c["fixed"] = [m[l] for l in case["fixed"]]
    return c


def tuplify(t):
    return tuple(tuplify(x) if isinstance(x, list) else x for x in t)


def run_case(case, rec, mon):
    from glotaran.parameter import ParameterHistory

    orig = case
    case = dict(case)
    case["trees"] = {l: tuplify(t) for l, t in case["trees"].items()}
    if case["ctor"] in ("dict", "yml"):
        case = relabel_for_groups(case)
    mon.ctx = dict(orig)
    mon.ctx["exprs"] = {l: X.to_text(t) for l, t in case["trees"].items()}
    mon.ctx["declared"] = {}
    try:
        p = construct(case)
    except Exception as e:  # noqa
        rec.violation(f"construct-raises:{case['ctor']}:{type(e).__name__}", mon.ctx, f"{type(e).__name__}: {e}")
        return False
    order = [q.label for q in p.all()]
    fwd = forward_refs(p)
    # idempotence
    s0 = state(p)
    p.update_parameter_expression()
    s1 = state(p)
    if not all(X.close(s0[k], s1[k]) for k in s0):
        f = "F8" if fwd else None
        rec.violation(f"{'F8:' if f else ''}not-idempotent:construction", mon.ctx, f"{s0} -> {s1}", f)
    rng = np.random.default_rng(case["useed"])
    changed_ref = False
    hist = ParameterHistory()
    hist.append(p)
    for step in range(3):
        labels, x, lo, hi = p.get_label_value_and_bounds_arrays(exclude_non_vary=True)
        for l in labels:
            if p.get(l).expression is not None:
                rec.violation("expression-parameter-in-optimiser-vector", mon.ctx, l)
        if not len(labels):
            break
        xn = x + rng.uniform(-0.3, 0.3, len(x))
        p.set_from_label_and_value_arrays(labels, xn)
        changed_ref = True
        s0 = state(p)
        p.update_parameter_expression()
        s1 = state(p)
        if not all(X.close(s0[k], s1[k]) for k in s0):
            f = "F8" if fwd else None
            rec.violation(f"{'F8:' if f else ''}not-idempotent:update", mon.ctx, f"{s0} -> {s1}", f)
        hist.append(p, step + 1)
    q = p.copy()
    want = state(p)
    # the copy is a parameter set of its own: updating IT (as the optimiser does with its private copy) leaves the original
    # untouched, and the copy's expressions follow the copy's values (judged by the setter's contract on q)
    labels_q, x_q, _, _ = q.get_label_value_and_bounds_arrays(exclude_non_vary=True)
    if len(labels_q):
        q.set_from_label_and_value_arrays(labels_q, x_q + 0.21)
        rec.count("copies_updated")
        if state(p) != want and not all(X.close(want[k], state(p)[k]) for k in want):
            rec.violation("copy-not-independent", mon.ctx, f"updating a copy changed the original: {want} -> {state(p)}")
        q = p.copy()
    p.set_from_history(hist, 0)
    p.set_from_history(hist, hist.number_of_records - 1)
    got = state(p)
    # the plain parameters come back (to the rounding of the log/exp transformation); the expression parameters are
    # judged by the contract on the setter (== expression on the restored values), NOT against their earlier values:
    # an ill-conditioned expression (sin of a large argument) amplifies the one-ulp round trip of a referenced value
    plain = [k for k in want if p.get(k).expression is None]
    if not all(want[k] == got[k] or abs(want[k] - got[k]) <= 1e-13 * max(abs(want[k]), 1e-300) for k in plain) and not inconsistent(q):
        rec.violation("history-restore-differs", mon.ctx, f"plain parameters {({k: want[k] for k in plain})} vs {({k: got[k] for k in plain})}")
    return fwd or changed_ref, fwd


# ---------------------------------------------------------------- shards
CTORS = ["direct", "direct", "direct", "dict", "yml", "csv", "dataframe"]


def plan(tier, seed):
    specs = []
    if tier == "quick":
        # k<=3 exhaustive over graphs, 720 orders sampled: 40 orders per graph; k=4 sampled
        for i in range(16):
            specs.append({"mode": "enum", "shard": i, "nshards": 16, "orders": 24, "kmax": 4})
    else:
        for i in range(32):
            specs.append({"mode": "enum", "shard": i, "nshards": 32, "orders": 720, "kmax": 4})
    for i in range(2):
        specs.append({"mode": "insitu", "shard": 100 + i, "n": {"quick": 4, "thorough": 20}[tier]})
    return specs


def run_shard(spec, rec):
    mon = attach(rec)
    rng = rng_for(spec)
    if spec["mode"] == "insitu":
        return insitu(spec, rec, mon, rng)
    allperms = list(itertools.permutations(range(6)))
    idx = 0
    for k in range(1, spec["kmax"] + 1):
        for graph in graphs(k):
            idx += 1
            if idx % spec["nshards"] != spec["shard"]:
                continue
            if spec["orders"] >= 720:
                orders = allperms
            else:
                orders = [allperms[i] for i in rng.choice(720, spec["orders"], replace=False)]
            for oi, order in enumerate(orders):
                ctor = CTORS[(oi + idx) % len(CTORS)] if spec["orders"] < 720 else ("direct" if oi % 12 else CTORS[(oi // 12) % len(CTORS)])
                case = make_case(rng, k, graph, list(order), ctor)
                if case is None:
                    rec.skip("no finite expression found")
                    continue
                out = run_case(case, rec, mon)
                if out is False:
                    rec.case(None, False)
                    continue
                nt, fwd = out
                rec.case((k, idx, tuple(order), ctor), bool(nt), sample=case if rec.evaluations % 997 == 0 else None,
                         features=[f"k={k}", f"ctor={ctor}", "forward-ref" if fwd else "no-forward-ref"])
    rec.features[f"graphs_enumerated_k<={spec['kmax']}"] += 1


def insitu(spec, rec, mon, rng):
    """Real optimisations over parameter sets with chained expressions declared 'backwards'."""
    from glotaran.optimization.optimize import optimize
    from vf.gen.simple import random_decay_scheme

    for i in range(spec["n"]):
        desc, scheme = random_decay_scheme(rng, max_nfev=4, expr_chain=True)
        mon.ctx = dict(desc, insitu=True)
        n0 = rec.counters["post:set_from_label_and_value_arrays"]
        try:
            optimize(scheme, raise_exception=True)
        except Exception as e:  # noqa
            rec.note(f"insitu raised {type(e).__name__}: {e}")
            rec.skip("insitu optimisation raised")
            continue
        rec.count("insitu_updates_checked", rec.counters["post:set_from_label_and_value_arrays"] - n0)
        rec.case(("insitu", desc["n_comp"], desc["irf"], i), True, sample=desc, features=["insitu"])
    # "consequently the model is always evaluated with mutually consistent parameter values": harness schemes in which
    # one dataset depends on the free parameters ONLY through expressions; every objective evaluation of a real
    # optimisation is compared with the reference objective at the same optimiser vector (oracle of C02)
    from vf.gen import schemes as S
    from vf.props import c02

    S.model_class()
    log = []
    c02.attach(rec, log)
    for j in range(max(2, spec["n"] // 4)):
        linked = [True, False, None][j % 3]
        k1, k2 = float(np.round(rng.uniform(0.8, 2.0), 3)), float(np.round(rng.uniform(0.05, 0.4), 3))
        ds = [{"label": f"ds{k + 1}", "group": "g1", "t": [0.0, 0.25, 0.5, 1.0, 1.5, 2.5, 4.0, 6.0, 8.0, 11.0][: 9 + k], "g": [1.0, 2.0, 3.0, 4.0] if k == 0 else [3.0, 4.0, 5.0],
               "layout": "mg", "megacomplex": ["m1"] if k == 0 else ["m2"], "dseed": int(rng.integers(2**31)), "id0": 100 * k, "weight": None, "scale": None, "mc_scale": None} for k in range(2)]
        case = S.jsonable_case({
            "datasets": ds, "megacomplexes": {"m1": {"labels": ["a", "b"], "rates": ["k.1", "k.2"], "disp": None}, "m2": {"labels": ["a", "c"], "rates": ["e.1", "e.2"], "disp": None}},
            "global_megacomplexes": {}, "groups": {"g1": {"link_clp": linked, "residual_function": "variable_projection"}},
            "parameters": {"k.1": {"value": k1}, "k.2": {"value": k2}, "e.2": {"value": k2 / 3, "expr": "$k.2 / 3"}, "e.1": {"value": 2 * k1, "expr": "2 * $k.1"}},
            "link_tolerance": 0.0, "link_method": "nearest", "constraints": [], "relations": [], "penalties": [], "weights": [],
            "features": {"nnls": False, "link_clp": linked, "n_datasets": 2, "expression_only_dataset": True}})
        ok = c02.judge_case(case, rec, log)
        rec.count("insitu_objectives_with_expression_only_dataset")
        rec.case(("insitu-objective", str(linked), j), bool(ok), features=["insitu-objective"])


def replay(case, rec):
    mon = attach(rec)
    if "trees" not in case:
        rec.note("replay of in-situ cases is not supported; re-run the shard")
        return
    run_case(case, rec, mon)
