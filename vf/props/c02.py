"""C02 - the minimised objective is the documented separable least-squares problem.

Monitor: recorders on Optimizer.objective_function (x -> penalty vector) and
OptimizationGroup.get_full_penalty (per-group slices) during real optimize() runs.
Oracle: vf.ref.objective evaluated from the scheme case description at the very x scipy used.
"""
from __future__ import annotations

import numpy as np

from vf import tol as T
from vf.core import rng_for
from vf.gen import schemes as S
from vf.ref import objective as O

LEVEL = "exploration"
RULE = (
    "Seeded scheme cases (vf/gen/schemes.py): 1-4 datasets in 1-2 groups, link_clp true/false/auto, index-dependent or "
    "independent harness megacomplexes (closed-form matrices known to the oracle), 1-2 megacomplexes per dataset sharing "
    "labels, identical / overlapping / disjoint / within-tolerance global axes, dataset weights / model weights / both / "
    "none, dataset scale, megacomplex scales, zero/only constraints, relations, equal-area penalties (with/without "
    "intervals, infinite bounds), VP or NNLS, full models (global megacomplex).  Each scheme is optimised for 2-3 function "
    "evaluations from its initial and from a far parameter vector; EVERY objective evaluation scipy makes (incl. finite-"
    "difference Jacobian points) is compared, per dataset group, as a multiset + exact length with the independent "
    "reference.  Non-trivial: >= 2 global indices, non-zero residual and >= 1 optional feature; distinct = feature "
    "signature (features x shape class)."
)
ASSUMPTIONS = [
    "the reference objective vf/ref/objective.py encodes the documented semantics; numpy lstsq/SVD and NNLS by enumeration are trusted",
    "link_clp: null may resolve to linked or unlinked (statement silent) but the same way at every evaluation; groups with a full-model dataset are unlinked",
    "penalty entries are compared as a per-group multiset: their order is pinned down through result coordinates by C03",
]
MIN_NONTRIVIAL = {"quick": 60, "thorough": 400}
DECIDING = ["mon:objective_function", "mon:get_full_penalty", "evaluations_compared"]


def attach(rec, log):
    from glotaran.optimization.optimization_group import OptimizationGroup
    from glotaran.optimization.optimizer import Optimizer
    from vf.instrument import wrap

    def after_obj(a, k, out, exc, tok):
        x = np.array(a[1], dtype=float, copy=True)
        log.append({"x": x, "penalty": None if exc is not None else np.array(out, copy=True), "groups": log_groups[:], "exc": exc})
        del log_groups[:]

    log_groups = []

    def after_group(a, k, out, exc, tok):
        if exc is None:
            log_groups.append(np.array(out, copy=True))

    def before_obj(*a, **k):
        del log_groups[:]

    wrap(Optimizer, "objective_function", after=after_obj, before=before_obj, rec=rec, key="mon:objective_function")
    wrap(OptimizationGroup, "get_full_penalty", after=after_group, rec=rec, key="mon:get_full_penalty")


def real_values(case, x):
    """optimizer-space vector -> real-space dict (harness's own transformation)."""
    vals = {}
    for l, v in zip(O.free_labels(case), x):
        vals[l] = float(np.exp(v)) if case["parameters"][l].get("non_negative") else float(v)
    return vals


def case_data(case):
    return {ds["label"]: S.dataset_arrays(ds) for ds in case["datasets"]}


def compare_group(impl, ref, mech_prefix):
    """-> (mech, detail, slack) or None"""
    if not np.isfinite(ref["kappa"]) or ref["kappa"] > 1e10:
        return ("oracle", "rank deficient or kappa > 1e10: outside the property", 0.0)

    want = O.penalty_vector(ref)
    if impl.shape != want.shape:
        return (f"{mech_prefix}:length", f"{impl.size} entries, reference {want.size} (data points {want.size - len(ref['penalties'])} + penalties {len(ref['penalties'])})", float("inf"))
    npen = len(ref["penalties"])
    nres = want.size - npen
    if not np.isfinite(impl).all() and np.isfinite(want).all():
        return (f"{mech_prefix}:non-finite", f"{int((~np.isfinite(impl)).sum())} non-finite penalty entries where the reference objective is finite", float("inf"))
    ir, wr = np.sort(impl[:nres]), np.sort(want[:nres])
    scale = max(float(np.abs(wr).max()) if nres else 0.0, 1.0)
    t = T.lsq_tol(20, 6, scale, ref["kappa"])
    s = float(np.abs(ir - wr).max() / t) if nres else 0.0
    if s > 1:
        return (f"{mech_prefix}:residuals", f"sorted residual entries differ by {np.abs(ir - wr).max():.3e} (tol {t:.1e})", s)
    if npen:
        ip, wp = np.sort(impl[nres:]), np.sort(want[nres:])
        # penalties are sums over clps: conditioning of the clps applies
        tp = T.lsq_tol(20, 6, max(float(np.abs(wp).max()), 1.0) * 10, min(ref["kappa"], 1e150) ** 2)
        sp = float(np.abs(ip - wp).max() / tp)
        if sp > 1:
            return (f"{mech_prefix}:penalties", f"equal-area penalties {ip.tolist()} vs reference {wp.tolist()}", sp)
        s = max(s, sp)
    return (None, None, s)


def judge_case(case, rec, log, start_factor=None, reuse=False):
    """Build the scheme, run a short optimisation, compare every observed evaluation."""
    from glotaran.optimization.optimize import optimize

    feats = case["features"]
    data = case_data(case)
    c = case
    if start_factor is not None:
        c = dict(case)
        c["parameters"] = {l: dict(p) for l, p in case["parameters"].items()}
        for l, f in start_factor.items():
            p = c["parameters"][l]
            v = p["value"] * f
            v = max(v, p.get("min", -np.inf))
            v = min(v, p.get("max", np.inf))
            p["value"] = v
    del log[:]
    from vf.core import CaseTimeout, time_limit

    try:
        # a reused scheme is built the way Scheme() defaults build it (add_svd=True): what the first run leaves on the
        # caller's datasets (SVD variables with their own dimensions) must not change how the second run evaluates
        scheme = S.build_scheme(c, maximum_number_function_evaluations=2, **({"add_svd": True} if reuse else {}))
        with time_limit(30):
            optimize(scheme, verbose=False, raise_exception=True)
            if reuse:
                # the SAME Scheme object again: what the first run did to the caller's data / parameters must not show
                optimize(scheme, verbose=False, raise_exception=True)
                rec.count("schemes_optimised_twice")
    except (Exception, CaseTimeout) as e:  # noqa
        import traceback

        frames = traceback.extract_tb(e.__traceback__)
        in_scipy_nnls = any(f.filename.endswith("scipy/optimize/_nnls.py") for f in frames)
        uses_nnls = any(g["residual_function"] == "non_negative_least_squares" for g in case["groups"].values())
        finding = "F13" if (in_scipy_nnls and uses_nnls) else None
        rec.violation(f"{'F13:' if finding else ''}raises:{type(e).__name__}:{'scipy-nnls' if finding else mech_tag(case)}", S.jsonable_case(case),
                      f"{type(e).__name__}: {str(e)[:300]}", finding)
        return False
    groups = [g for g in case["groups"] if O.group_datasets(case, g)]
    choice = {}
    evs = log[:]
    if len(evs) > 6:
        idx = sorted(set([0, 1, len(evs) // 2, len(evs) - 2, len(evs) - 1]))
        evs = [evs[i] for i in idx]
    for ev in evs:
        if ev["penalty"] is None:
            continue
        pv = O.parameter_values(c, real_values(c, ev["x"]))
        if len(ev["groups"]) != len(groups):
            rec.violation("group-count", S.jsonable_case(case), f"{len(ev['groups'])} group penalties for {len(groups)} groups")
            return False
        total = np.concatenate(ev["groups"]) if len(ev["groups"]) > 1 else ev["groups"][0]
        if total.shape != ev["penalty"].shape or not np.array_equal(total, ev["penalty"], equal_nan=True):
            rec.violation("groups-not-concatenated", S.jsonable_case(case), f"objective is not the concatenation of the group penalties in group order: sizes {[g.size for g in ev['groups']]} vs {ev['penalty'].size}; start_factor={start_factor}; nan={np.isnan(ev['penalty']).sum()}")
        for gi, g in enumerate(groups):
            gd = case["groups"][g]
            options = [gd["link_clp"]] if gd["link_clp"] is not None else ([choice[g]] if g in choice else ([True, False] if O.linkable(case, g) else [False]))
            verdicts = []
            for linked in options:
                try:
                    ref = O.evaluate_group(c, g, pv, data, bool(linked))
                except (AL_Ambiguous, ValueError) as e:
                    verdicts.append((linked, ("oracle", str(e), 0.0)))
                    continue
                verdicts.append((linked, compare_group(ev["groups"][gi], ref, ("linked" if linked else "unlinked"))))
            # NNLS groups in the regime of known finding F13 (eps*kappa^2 not small, or gradient scale above what
            # scipy's absolute tolerance resolves / overflow of the normal equations): if the penalty is
            # not the optimum but equals what scipy's solver yields on the reference matrices, the
            # deviation is F13's; if it matches neither, conditioning leaves the case undecided.
            if gd["residual_function"] == "non_negative_least_squares" and not any(v[0] is None for _, v in verdicts):
                regime = False
                second = []
                for linked in options:
                    try:
                        O.NNLS_SOLVER[0] = "scipy"
                        ref2 = O.evaluate_group(c, g, pv, data, bool(linked))
                        regime = regime or min(ref2["kappa"], 1e150) ** 2 >= T.C * 20 or ref2["huge"] or ref2["f13"]
                        second.append((linked, compare_group(ev["groups"][gi], ref2, "linked" if linked else "unlinked")))
                    except Exception:  # noqa
                        regime = True
                    finally:
                        O.NNLS_SOLVER[0] = "enum"
                if regime:
                    if any(v[0] is None for _, v in second):
                        rec.violation("F13:nnls-suboptimal-in-objective", S.jsonable_case(case), "penalty equals scipy's NNLS answer on the reference matrices, not the optimum", "F13")
                    else:
                        rec.skip("NNLS group in F13 regime: matches neither optimum nor scipy (undecided)")
                    rec.count("nnls_groups_in_F13_regime")
                    continue
            ok = [(l, v) for l, v in verdicts if v[0] is None]
            if ok:
                choice[g] = ok[0][0]
                rec.slack("penalty_vector", ok[0][1][2])
                rec.count("evaluations_compared")
                rec.count("evaluations_compared_nnls" if gd["residual_function"] == "non_negative_least_squares" else "evaluations_compared_vp")
            elif all(v[0] == "oracle" for _, v in verdicts):
                rec.skip("oracle: " + verdicts[0][1][1][:60])
            else:
                l, v = [(l, v) for l, v in verdicts if v[0] != "oracle"][0]
                rec.violation(f"{v[0]}:{mech_tag(case, g)}", S.jsonable_case(case), f"group {g}: {v[1]}")
                return False
    return True


from vf.ref.align import Ambiguous as AL_Ambiguous  # noqa: E402


def mech_tag(case, g=None):
    """Mechanism tag: which features are in play (keeps distinct defects distinct)."""
    f = case["features"]
    tags = []
    dss = case["datasets"] if g is None else O.group_datasets(case, g)
    if any(d.get("scale") for d in dss):
        tags.append("scale")
    if any(d.get("weight") for d in dss) and any(d["label"] in w["datasets"] for w in case.get("weights", []) for d in dss):
        tags.append("both-weights")
    elif any(d.get("weight") for d in dss):
        tags.append("dsweight")
    elif any(d["label"] in w["datasets"] for w in case.get("weights", []) for d in dss):
        tags.append("modelweight")
    if case.get("penalties"):
        inf = any("inf" in str(p["source_intervals"]) or "inf" in str(p["target_intervals"]) for p in case["penalties"])
        tags.append("penalty-inf" if inf else "penalty")
    if case.get("relations"):
        tags.append("relation")
    if case.get("constraints"):
        tags.append("constraint")
    if any(d.get("global_megacomplex") for d in dss):
        tags.append("fullmodel")
    if f.get("index_dependent"):
        tags.append("idxdep")
    if f.get("nnls"):
        tags.append("nnls")
    return "+".join(tags) or "plain"


def signature(case):
    f = case["features"]
    keys = ["n_datasets", "two_groups", "full_model", "link_clp", "nnls", "index_dependent", "axes", "weights", "dataset_scale",
            "megacomplex_scale", "constraints", "relations", "penalties", "intervals"]
    return tuple(str(f.get(k)) for k in keys)


def nontrivial(case):
    f = case["features"]
    optional = any([f.get("weights") != "none", f.get("dataset_scale"), f.get("megacomplex_scale"), f.get("constraints"),
                    f.get("relations"), f.get("penalties"), f.get("full_model"), f.get("link_clp") is not False, f.get("nnls")])
    return optional and all(len(d["g"]) >= 2 for d in case["datasets"])


def first_eval_groups(case, log, data=None):
    from glotaran.optimization.optimize import optimize
    from vf.core import CaseTimeout, time_limit

    del log[:]
    try:
        with time_limit(30):
            optimize(S.build_scheme(case, data=data, maximum_number_function_evaluations=1), verbose=False, raise_exception=True)
    except (Exception, CaseTimeout):
        return None
    return log[0]["groups"] if log and log[0]["penalty"] is not None else None


def metamorphic(case, rec, log):
    """Group independence and exact weight scaling, observed on the first objective evaluation."""
    groups = [g for g in case["groups"] if O.group_datasets(case, g)]
    base = first_eval_groups(case, log)
    if base is None:
        return
    if len(groups) == 2:
        # change every data value of group 2: group 1's slice must be bit-identical
        c2 = S.jsonable_case(case)
        for d in c2["datasets"]:
            if d["group"] == groups[1]:
                d["dseed"] = d["dseed"] + 1
        other = first_eval_groups(c2, log)
        if other is not None:
            rec.count("metamorphic:group-independence")
            if not np.array_equal(base[0], other[0], equal_nan=True):
                rec.violation("groups-not-independent", S.jsonable_case(case), "changing the data of one dataset group changed the penalty entries of the other group")
    # scale one dataset's weight by 2 (exact in floating point): exactly its entries double (unlinked, VP, no penalties)
    cands = [d for d in case["datasets"] if d.get("weight") == "dataset" and not d.get("global_megacomplex")
             and case["groups"][d["group"]]["link_clp"] is False and case["groups"][d["group"]]["residual_function"] == "variable_projection"]
    if cands and not case.get("penalties"):
        ds = cands[0]
        data = S.build_data(case)
        data[ds["label"]]["weight"] = data[ds["label"]]["weight"] * 2.0
        other = first_eval_groups(case, log, data=data)
        if other is not None:
            gi = groups.index(ds["group"])
            rec.count("metamorphic:weight-scaling")
            # entries of this dataset: located by order of the group's datasets (unlinked: dataset after dataset)
            start = 0
            for d in O.group_datasets(case, ds["group"]):
                n = len(d["t"]) * len(d["g"])
                if d["label"] == ds["label"]:
                    a, b = base[gi][start:start + n], other[gi][start:start + n]
                    rest_same = np.array_equal(np.delete(base[gi], np.s_[start:start + n]), np.delete(other[gi], np.s_[start:start + n]), equal_nan=True)
                    if not (np.allclose(b, 2.0 * a, rtol=1e-12, atol=1e-300) and rest_same):
                        rec.violation("weight-scaling", S.jsonable_case(case), f"doubling the weight of {ds['label']} did not exactly double its penalty entries and leave all others unchanged")
                start += n


def plan(tier, seed):
    n = {"quick": 16, "thorough": 32}[tier]
    return [{"shard": i, "n": {"quick": 60, "thorough": 1200}[tier]} for i in range(n)]


def fix_groups(case):
    """Groups holding a full-model dataset are not linked explicitly (stacking is undefined)."""
    for g in case["groups"]:
        if not O.linkable(case, g) and case["groups"][g]["link_clp"]:
            case["groups"][g]["link_clp"] = None
            case["features"]["link_clp"] = None
    return case


def run_shard(spec, rec):
    log = []
    attach(rec, log)
    rng = rng_for(spec)
    S.model_class()
    if spec["shard"] == 0:
        # hand-built schemes with a single conditionally linear parameter (one matrix column is both C- and Fortran-
        # contiguous; the same array serves every global index of an unlinked index-independent dataset)
        from vf.props import c03

        for jc in c03.adversarial_cases():
            if jc["features"].get("single_clp"):
                judge_case(jc, rec, log)
                rec.case(("single-clp", jc["features"]["link_clp"], bool(jc["megacomplexes"]["m1"]["disp"]), jc["datasets"][1]["weight"]), True, features=["single_clp"])
    for i in range(spec["n"]):
        case = fix_groups(S.gen_case(rng, layouts=("mg", "gm", "mg_f", "gm_f")))
        jc = S.jsonable_case(case)
        ok = judge_case(jc, rec, log, reuse=bool(i % 2))
        if ok and rng.integers(2):
            far = {l: float(rng.uniform(0.4, 2.5)) for l in O.free_labels(jc)}
            judge_case(jc, rec, log, start_factor=far)
        if ok and i % 3 == 0:
            metamorphic(jc, rec, log)
        feats = [f"{k}={v}" for k, v in case["features"].items() if k in ("link_clp", "weights", "axes", "nnls", "full_model", "index_dependent")]
        rec.case(signature(case), nontrivial(case), sample=jc if i == 0 else None, features=feats)


def replay(case, rec):
    log = []
    attach(rec, log)
    S.model_class()
    judge_case(case, rec, log)
