"""C04 - decay matrices are the solution of the compartmental rate equations.

Monitors: postcondition wrappers on decay.util.calculate_matrix (the matrix every decay megacomplex
returns), KMatrix.a_matrix / rates / is_sequential (which path was taken), InitialConcentration.normalized.
Oracle: c(t) = expm(K t) j with K assembled by the oracle from the specification (float64 expm,
30-digit mpmath expm as arbiter), conservation, sequential/parallel == general, and the reported
rates / lifetimes / A-matrix / DAS / k_matrix of optimisation results.
"""
from __future__ import annotations

import itertools

import numpy as np

from vf.core import rng_for, time_limit, CaseTimeout
from vf.ref import kinetics as K

LEVEL = "exploration"
RULE = (
    "Generated compartmental schemes with 2-5 compartments: chains, branching, reversible steps, parallel decays, mixed, 1-2 K-"
    "matrices per megacomplex (later entries overriding), every declaration order of the compartments (all permutations for "
    "<= 4, sampled for 5), rate constants log-uniform over six decades, initial populations {first only, any single one, several, "
    "all} with / without exclude_from_normalize, random increasing time axes t >= 0; K with complex or relatively closer-than-1e-3 "
    "eigenvalues rejected (outside the property).  Each matrix returned by the real decay / decay-sequential / decay-parallel "
    "megacomplex is compared column-by-label with expm(K t) j; population conservation without loss channel; sequential and "
    "parallel megacomplexes against the general one with the equivalent K; results of real optimisations: c(t) = sum_l A_l exp(-"
    "rate_l t), lifetime = 1/rate, DAS = SAS @ A^T, k_matrix arrays == oracle K.  Non-trivial: >= 2 coupled compartments; distinct "
    "= (topology, n, declaration order class, population pattern, path taken)."
)
ASSUMPTIONS = [
    "scipy.linalg.expm (float64) with mpmath.expm at 30 digits as arbiter is the trusted base",
    "tolerance scaled by cond(eigenvectors) of K: the mathematical conditioning of the eigen-decomposition the property presupposes",
    "non-excluded initial populations have a positive sum (0/0 normalisation is outside the property)",
]
MIN_NONTRIVIAL = {"quick": 150, "thorough": 250}  # the signature space (topology, n, order, pattern, exclude, path) saturates near 330
DECIDING = ["matrices_compared", "mon:calculate_matrix", "mon:is_sequential", "mon:a_matrix", "equivalence_checked", "results_checked", "conservation_checked"]


# ---------------------------------------------------------------- monitors
def attach(rec, cap):
    import glotaran.builtin.megacomplexes.decay.decay_megacomplex as DM
    import glotaran.builtin.megacomplexes.decay.decay_parallel_megacomplex as DP
    import glotaran.builtin.megacomplexes.decay.decay_sequential_megacomplex as DS
    import glotaran.builtin.megacomplexes.decay.util as U
    from glotaran.builtin.megacomplexes.decay.initial_concentration import InitialConcentration
    from glotaran.builtin.megacomplexes.decay.k_matrix import KMatrix
    from vf.instrument import wrap

    def after_seq(a, k, out, exc, tok):
        cap["sequential_path"] = bool(out) if exc is None else None
        rec.count("path:closed-form" if out else "path:eigen")

    wrap(KMatrix, "is_sequential", after=after_seq, rec=rec, key="mon:is_sequential")
    wrap(KMatrix, "a_matrix", rec=rec, key="mon:a_matrix")
    wrap(KMatrix, "rates", rec=rec, key="mon:rates")
    wrap(InitialConcentration, "normalized", rec=rec, key="mon:normalized")
    wrap(U, "calculate_matrix", rec=rec, key="mon:calculate_matrix")
    for mod in (DM, DP, DS):
        mod.calculate_matrix = U.calculate_matrix


# ---------------------------------------------------------------- generator
TOPOLOGIES = ["chain", "chain_loss", "branch", "reversible", "parallel", "mixed", "two_matrices"]


def gen_scheme(rng, n=None, topology=None):
    n = int(rng.integers(2, 6)) if n is None else n
    topology = str(rng.choice(TOPOLOGIES)) if topology is None else topology
    comps = [f"s{i + 1}" for i in range(n)]
    # mostly 1e-3 .. 1e3; one in twelve rates is very slow in the unit of the time axis (a ps axis with a 100 us component)
    rate = lambda: float(10.0 ** (rng.uniform(-3, 3) if rng.integers(12) else rng.uniform(-12, -8)))  # noqa: E731
    km1, km2 = [], []
    if topology == "chain":
        for i in range(n - 1):
            km1.append(((comps[i + 1], comps[i]), rate()))
        km1.append(((comps[-1], comps[-1]), rate()))
    elif topology == "chain_loss":
        for i in range(n - 1):
            km1.append(((comps[i + 1], comps[i]), rate()))
            if rng.integers(2):
                km1.append(((comps[i], comps[i]), rate()))
        km1.append(((comps[-1], comps[-1]), rate()))
    elif topology == "branch":
        for i in range(1, n):
            src = comps[int(rng.integers(0, i))]
            km1.append(((comps[i], src), rate()))
        for i in range(n):
            if rng.integers(2) or i == n - 1:
                km1.append(((comps[i], comps[i]), rate()))
    elif topology == "reversible":
        for i in range(n - 1):
            km1.append(((comps[i + 1], comps[i]), rate()))
            if rng.integers(2):
                km1.append(((comps[i], comps[i + 1]), rate()))
        if rng.integers(3):
            km1.append(((comps[-1], comps[-1]), rate()))
    elif topology == "parallel":
        for i in range(n):
            km1.append(((comps[i], comps[i]), rate()))
    elif topology == "mixed":
        for i in range(n):
            for j in range(n):
                if i != j and rng.integers(4) == 0:
                    km1.append(((comps[i], comps[j]), rate()))
            if rng.integers(2):
                km1.append(((comps[i], comps[i]), rate()))
        if not km1:
            km1.append(((comps[0], comps[0]), rate()))
    elif topology == "two_matrices":
        for i in range(n - 1):
            km1.append(((comps[i + 1], comps[i]), rate()))
        km1.append(((comps[-1], comps[-1]), rate()))
        # second matrix overrides one entry and adds a loss channel
        km2.append((km1[0][0], rate()))
        km2.append(((comps[0], comps[0]), rate()))
    # initial populations
    pat = str(rng.choice(["first", "single", "several", "all"] if n >= 2 else ["first", "all"]))
    j = np.zeros(n)
    if pat == "first":
        j[0] = float(rng.choice([1.0, 2.0, 0.3]))
    elif pat == "single":
        j[int(rng.integers(n))] = float(rng.choice([1.0, 0.7]))
    elif pat == "several":
        idx = rng.choice(n, size=max(2, int(rng.integers(2, n + 1))), replace=False)
        j[idx] = np.round(rng.uniform(0.2, 2.0, len(idx)), 3)
    else:
        j[:] = np.round(rng.uniform(0.2, 2.0, n), 3) if rng.integers(2) else 1.0
    exclude = []
    if rng.integers(3) == 0 and (j > 0).sum() >= 2:
        cand = [comps[i] for i in range(n) if j[i] > 0]
        exclude = [cand[int(rng.integers(len(cand)))]]
        if sum(j[i] for i in range(n) if comps[i] not in exclude) <= 0:
            exclude = []
    if not exclude and rng.integers(6) == 0:
        exclude = list(comps)  # nothing is normalised: the populations enter as given (also a single one != 1)
    # involved compartments only (a compartment without any K entry is dropped by the implementation)
    involved = {c for (a, b), _ in km1 + km2 for c in (a, b)}
    if len(involved) < n:
        for c in comps:
            if c not in involved:
                km1.append(((c, c), rate()))
    # time axis
    nt = int(rng.integers(6, 16))
    kmax = max(r for _, r in km1 + km2)
    kmin = min(r for _, r in km1 + km2)
    tmax = float(rng.choice([5.0 / kmax, 3.0 / kmin, 10.0 / np.sqrt(kmax * kmin)]))
    t = np.sort(np.concatenate([[0.0], rng.uniform(0, 1, nt - 1) ** 2 * tmax]))
    return {"n": n, "topology": topology, "compartments": comps, "km1": [[list(k), v] for k, v in km1], "km2": [[list(k), v] for k, v in km2],
            "j": j.tolist(), "exclude": exclude, "pattern": pat, "times": t.tolist()}


def oracle_K(case, order):
    entries = [((a, b), v) for (a, b), v in case["km1"]] + [((a, b), v) for (a, b), v in case["km2"]]
    return K.assemble(order, entries)


def build_general(case, order, entry_perm=None):
    """Model + parameters for the general decay megacomplex with compartments declared in `order`."""
    from glotaran.parameter import Parameters
    from vf.gen.simple import all_builtin_model_class

    pl = []
    kms = {}
    for name, ents in (("km1", case["km1"]), ("km2", case["km2"])):
        if not ents:
            continue
        ents = list(ents)
        if entry_perm is not None and name == "km1":
            ents = [ents[i] for i in entry_perm]
        m = {}
        for i, ((a, b), v) in enumerate(ents):
            pl.append([f"{name}_{a}_{b}", float(v), {"vary": False}])
            m[(a, b)] = f"{name}_{a}_{b}"
        kms[name] = {"matrix": m}
    jd = dict(zip(case["compartments"], case["j"]))
    for c in order:
        pl.append([f"j_{c}", float(jd[c]), {"vary": False}])
    spec = {
        "megacomplex": {"mc1": {"type": "decay", "k_matrix": list(kms)}},
        "k_matrix": kms,
        "initial_concentration": {"j1": {"compartments": list(order), "parameters": [f"j_{c}" for c in order], "exclude_from_normalize": list(case["exclude"])}},
        "dataset": {"d1": {"megacomplex": ["mc1"], "initial_concentration": "j1"}},
    }
    return all_builtin_model_class()(**spec), Parameters.from_list(pl)


def evaluate(model, params, times):
    from glotaran.model.item import fill_item

    dm = fill_item(model.dataset["d1"], model, params)
    mc = dm.megacomplex[0]
    labels, matrix = mc.calculate_matrix(dm, np.array([0.0]), np.asarray(times, dtype=float))
    return list(labels), np.asarray(matrix)


def reference(case, order):
    Kmat = oracle_K(case, order)
    jd = dict(zip(case["compartments"], case["j"]))
    j = K.normalise([jd[c] for c in order], order, case["exclude"])
    return Kmat, j


def tolerance(Kmat, j, times):
    ev, V = np.linalg.eig(Kmat)
    condV = np.linalg.cond(V)
    # conditioning of the mathematical problem: a relative perturbation eps of K changes expm(K t) j by
    # ~ eps * cond(V) * (1 + |K| t)
    growth = 1.0 + float(np.linalg.norm(Kmat, 2)) * float(np.max(times))
    # plus the backward error LAPACK's eigen-decomposition of this K actually attains (residual K V - V L, up to
    # ~1e3 eps |K| for stiff K): c(t) computed from it is exact for K + R V^-1, which moves c by <= t |R| cond(V) |j|
    with np.errstate(all="ignore"):
        resid = float(np.abs(Kmat @ V - V * ev).max())
        try:
            # the documented route takes LEFT eigenvectors of K^T; for graded (stiff) K LAPACK's left eigenvectors carry a
            # larger residual than the right ones (1e-10 |K| seen for rates spanning 1e-10 .. 1e2)
            from scipy.linalg import eig as _eig

            evl, Vl = _eig(Kmat.T, left=True, right=False)
            resid = max(resid, float(np.abs(Kmat @ Vl.real - Vl.real * evl.real).max()))
        except Exception:  # noqa
            pass
    jn = max(np.abs(j).sum(), 1.0)
    return (64 * np.finfo(float).eps * max(condV, 1.0) * growth * jn + 4 * float(np.max(times)) * resid * max(condV, 1.0) * jn + 1e-300), condV


def judge_matrix(case, order, labels, matrix, rec, ctx, cap):
    Kmat, j = reference(case, order)
    ok, ev = K.spectrum_ok(Kmat)
    if not ok:
        rec.skip("K has complex or near-degenerate eigenvalues (outside the property)")
        return None
    if sorted(labels) != sorted(order) or matrix.shape != (len(case["times"]), len(order)):
        rec.violation("labels-or-shape", ctx, f"labels {labels}, shape {matrix.shape}")
        return False
    tol, condV = tolerance(Kmat, j, case["times"])
    if condV > 1e8:
        rec.skip("eigenvector matrix ill-conditioned (cond > 1e8)")
        return None
    ref = K.concentrations(Kmat, j, case["times"])
    got = np.column_stack([matrix[:, labels.index(c)] for c in order])
    rec.count("matrices_compared")
    dev = np.abs(got - ref).max()
    if not dev <= tol:  # NaN-aware
        refmp = K.concentrations_mp(Kmat, j, case["times"])
        rec.count("mpmath_arbitrations")
        dev = np.abs(got - refmp).max()
        ref = refmp
    rec.slack("concentration", dev / tol)
    if not dev <= tol:
        i, c = np.unravel_index(np.argmax(np.abs(got - ref)), got.shape)
        path = "closed-form" if cap.get("sequential_path") else "eigen"
        jn = np.asarray(j)
        first_only = bool(jn[0] != 0 and (jn[1:] == 0).all())
        rec.violation(f"concentration-mismatch:{path}:{'population-in-first' if first_only else 'population-not-only-first'}", ctx,
                      f"compartment {order[c]} at t={case['times'][i]:.4g}: {got[i, c]!r} vs expm {ref[i, c]!r} (max dev {dev:.3e}, tol {tol:.1e}, path {path}, j={jn.tolist()})")
        return False
    # conservation without loss channel
    if np.abs(Kmat.sum(axis=0)).max() <= 1e-14 * np.abs(Kmat).max():
        rec.count("conservation_checked")
        tot = got.sum(axis=1)
        if np.abs(tot - j.sum()).max() > tol * len(order):
            rec.violation("population-not-conserved", ctx, f"sum of populations {tot.tolist()} != {j.sum()}")
            return False
    return True


# ---------------------------------------------------------------- equivalence sequential / parallel vs general
def check_equivalence(rng, rec, cap):
    from glotaran.model.item import fill_item
    from glotaran.parameter import Parameters
    from vf.gen.simple import all_builtin_model_class

    n = int(rng.integers(1, 6))
    kind = str(rng.choice(["decay-sequential", "decay-parallel"]))
    comps = [f"c{i}" for i in rng.permutation(n)]
    rates = sorted((10.0 ** rng.uniform(-3, 3, n)).tolist(), reverse=bool(rng.integers(2)))
    if len(rates) > 1 and min(abs(a - b) / max(a, b) for a, b in itertools.combinations(rates, 2)) < 1e-3:
        rec.skip("nearly equal rates")
        return
    t = np.sort(np.concatenate([[0.0], rng.uniform(0, 1, 9) ** 2 * 4.0 / min(rates)]))
    spec = {"megacomplex": {"mc1": {"type": kind, "compartments": comps, "rates": [f"r{i}" for i in range(n)]}}, "dataset": {"d1": {"megacomplex": ["mc1"]}}}
    model = all_builtin_model_class()(**spec)
    params = Parameters.from_list([[f"r{i}", r] for i, r in enumerate(rates)])
    dm = fill_item(model.dataset["d1"], model, params)
    labels, matrix = dm.megacomplex[0].calculate_matrix(dm, np.array([0.0]), t)
    if kind == "decay-sequential":
        km1 = [[[comps[i + 1], comps[i]], rates[i]] for i in range(n - 1)] + [[[comps[-1], comps[-1]], rates[-1]]]
        j = [1.0] + [0.0] * (n - 1)
    else:
        km1 = [[[comps[i], comps[i]], rates[i]] for i in range(n)]
        j = [1.0] * n
    case = {"n": n, "topology": kind, "compartments": comps, "km1": km1, "km2": [], "j": j, "exclude": [], "pattern": "equiv", "times": t.tolist()}
    ctx = dict(case, equivalence=kind)
    rec.count("equivalence_checked")
    ok = judge_matrix(case, comps, list(labels), np.asarray(matrix), rec, ctx, cap)
    if ok:
        gm, gp = build_general(case, comps)
        gl, gmat = evaluate(gm, gp, t)
        d = max(np.abs(np.asarray(matrix)[:, list(labels).index(c)] - gmat[:, gl.index(c)]).max() for c in comps)
        tol, _ = tolerance(*reference(case, comps), t)
        if d > tol:
            rec.violation(f"{kind}-differs-from-general", ctx, f"max deviation {d:.3e} between the {kind} megacomplex and the general one with the equivalent K")
    return case


# ---------------------------------------------------------------- results of optimisations
def check_result(case, order, rec, cap, rng):
    import xarray as xr
    from glotaran.optimization.optimize import optimize
    from glotaran.project import Scheme

    model, params = build_general(case, order)
    g = np.array([1.0, 2.0, 3.0])
    t = np.asarray(case["times"])
    data = xr.DataArray(rng.standard_normal((t.size, g.size)), coords=[("time", t), ("spectral", g)]).to_dataset(name="data")
    # one free parameter is needed by scipy: let the first rate vary
    first = next(p for p in params.all() if p.label.startswith("km1_"))
    first.vary = True
    scheme = Scheme(model=model, parameters=params, data={"d1": data}, maximum_number_function_evaluations=1, add_svd=False)
    ctx = dict(case, order=order, result=True)
    try:
        with time_limit(60):
            res = optimize(scheme, verbose=False, raise_exception=True)
    except (Exception, CaseTimeout) as e:  # noqa
        if not K.spectrum_ok(reference(case, order)[0])[0]:
            rec.skip("K has complex or near-degenerate eigenvalues (outside the property): optimisation raised")
            return
        rec.violation(f"optimize-raises:{type(e).__name__}", ctx, f"{type(e).__name__}: {str(e)[:200]}")
        return
    rec.count("results_checked")
    rd = res.data["d1"]
    Kmat, j = reference(case, order)
    kres = rd["k_matrix_mc1"]
    sp = [str(s) for s in kres.coords["to_species_mc1"].values]
    Kgot = kres.sel(to_species_mc1=order, from_species_mc1=order).values
    if np.abs(Kgot - Kmat).max() > 1e-12 * np.abs(Kmat).max():
        rec.violation("result:k_matrix", ctx, f"reported k_matrix differs from the specification's K (max {np.abs(Kgot - Kmat).max():.3e})")
    A = rd["a_matrix_mc1"]
    rates = A.coords["rate_mc1"].values
    life = A.coords["lifetime_mc1"].values
    if not np.allclose(life, 1.0 / rates, rtol=1e-14):
        rec.violation("result:lifetime", ctx, f"lifetimes {life} != 1/rates {1 / rates}")
    ok, _ = K.spectrum_ok(Kmat)
    tol, condV = tolerance(Kmat, j, t)
    if not ok or condV > 1e8:
        rec.skip("result identities: degenerate / ill-conditioned K")
        return
    Am = A.sel({"species_mc1": order}).values  # (component, species)
    conc = np.exp(-np.outer(t, rates)) @ Am
    ref = K.concentrations(Kmat, j, t)
    if np.abs(conc - ref).max() > tol:
        refmp = K.concentrations_mp(Kmat, j, t)
        if np.abs(conc - refmp).max() > tol:
            rec.violation("result:a_matrix", ctx, f"sum_l A_l exp(-rate_l t) differs from expm(K t) j by {np.abs(conc - refmp).max():.3e}")
    sc = rd["species_concentration"].sel(species=order).values
    if np.abs(sc - ref).max() > tol and np.abs(sc - K.concentrations_mp(Kmat, j, t)).max() > tol:
        rec.violation("result:species_concentration", ctx, "species_concentration differs from expm(K t) j")
    sas = rd["species_associated_spectra"].sel(species=order).values
    das = rd["decay_associated_spectra_mc1"].values
    want = sas @ Am.T
    if np.abs(das - want).max() > 1e-10 * max(np.abs(want).max(), 1e-300):
        rec.violation("result:das", ctx, f"DAS != SAS @ A^T (max {np.abs(das - want).max():.3e})")


def check_shared_kmatrix(case, order, rec, rng):
    """Two datasets of ONE group: d1's megacomplex combines [km1, km2], d2's uses km1 alone.  Evaluated together (as
    optimize does), each reports the concentrations of ITS OWN K: combining K-matrices for one megacomplex may not
    change what another megacomplex sees of a matrix they share."""
    import xarray as xr
    from glotaran.optimization.optimize import optimize
    from glotaran.parameter import Parameters
    from glotaran.project import Scheme
    from vf.gen.simple import all_builtin_model_class

    if not case["km2"]:
        return
    pl, kms = [], {}
    for name in ("km1", "km2"):
        m = {}
        for (a, b), v in case[name]:
            pl.append([f"{name}_{a}_{b}", float(v), {"vary": name == "km1" and not m}])
            m[(a, b)] = f"{name}_{a}_{b}"
        kms[name] = {"matrix": m}
    jd = dict(zip(case["compartments"], case["j"]))
    for c in order:
        pl.append([f"j_{c}", float(jd[c]), {"vary": False}])
    t = np.asarray(case["times"])
    g = np.array([1.0, 2.0, 3.0])
    for first in ("d1", "d2"):
        names = ["d1", "d2"] if first == "d1" else ["d2", "d1"]
        mcof = {"d1": "mc_comb", "d2": "mc_plain"}
        spec = {"megacomplex": {"mc_comb": {"type": "decay", "k_matrix": ["km1", "km2"]}, "mc_plain": {"type": "decay", "k_matrix": ["km1"]}}, "k_matrix": kms,
                "initial_concentration": {"j1": {"compartments": list(order), "parameters": [f"j_{c}" for c in order], "exclude_from_normalize": list(case["exclude"])}},
                "dataset_groups": {"default": {"link_clp": False}},
                "dataset": {n: {"megacomplex": [mcof[n]], "initial_concentration": "j1"} for n in names}}
        ctx = dict(case, order=order, scenario=f"two datasets in one group, {first} declared first: mc_comb = [km1, km2], mc_plain = [km1]")
        try:
            model = all_builtin_model_class()(**spec)
            data = {n: xr.DataArray(rng.standard_normal((t.size, g.size)), coords=[("time", t), ("spectral", g)]).to_dataset(name="data") for n in names}
            with time_limit(60):
                res = optimize(Scheme(model=model, parameters=Parameters.from_list(pl), data=data, maximum_number_function_evaluations=1, add_svd=False), verbose=False, raise_exception=True)
        except (Exception, CaseTimeout) as e:  # noqa
            rec.skip(f"shared-K scenario not evaluable: {type(e).__name__}")
            return
        rec.count("shared_kmatrix_results_checked")
        for n, use2 in (("d1", True), ("d2", False)):
            sub = dict(case, km2=case["km2"] if use2 else [])
            Kmat, j = reference(sub, order)
            ok, _ = K.spectrum_ok(Kmat)
            tol, condV = tolerance(Kmat, j, t)
            if not ok or condV > 1e8:
                continue
            sc = res.data[n]["species_concentration"].sel(species=order).values
            ref = K.concentrations(Kmat, j, t)
            if not np.abs(sc - ref).max() <= tol and not np.abs(sc - K.concentrations_mp(Kmat, j, t)).max() <= tol:
                rec.violation(f"shared-k-matrix:species_concentration:{'combined' if use2 else 'plain'}-megacomplex", ctx,
                              f"dataset {n}: species_concentration differs from expm(K t) j of its own K by {np.abs(sc - ref).max():.3e}")
                return


# ---------------------------------------------------------------- shards
def orders_for(case, rng, tier):
    comps = case["compartments"]
    if len(comps) <= 4 and tier == "thorough":
        return [list(p) for p in itertools.permutations(comps)]
    if len(comps) <= 3:
        return [list(p) for p in itertools.permutations(comps)]
    perms = [list(comps)] + [[comps[i] for i in rng.permutation(len(comps))] for _ in range(3)]
    return perms


def plan(tier, seed):
    n = {"quick": 16, "thorough": 32}[tier]
    return [{"shard": i, "n": {"quick": 40, "thorough": 400}[tier], "neq": {"quick": 40, "thorough": 400}[tier], "nres": {"quick": 6, "thorough": 60}[tier]} for i in range(n)]


def run_shard(spec, rec):
    cap = {}
    attach(rec, cap)
    rng = rng_for(spec)
    for i in range(spec["n"]):
        case = gen_scheme(rng)
        for oi, order in enumerate(orders_for(case, rng, spec.get("tier"))):
            ctx = dict(case, order=order)
            try:
                model, params = build_general(case, order, entry_perm=list(rng.permutation(len(case["km1"]))) if oi % 2 else None)
                labels, matrix = evaluate(model, params, case["times"])
            except Exception as e:  # noqa
                if not K.spectrum_ok(reference(case, order)[0])[0]:
                    rec.skip("K has complex or near-degenerate eigenvalues (outside the property): evaluation raised")
                    continue
                rec.violation(f"raises:{type(e).__name__}:{case['topology']}", ctx, f"{type(e).__name__}: {str(e)[:200]}")
                continue
            ok = judge_matrix(case, order, labels, matrix, rec, ctx, cap)
            coupled = any(a != b for (a, b), _ in case["km1"] + case["km2"])
            rec.case((case["topology"], case["n"], "identity" if order == case["compartments"] else "permuted", case["pattern"], bool(case["exclude"]),
                      cap.get("sequential_path")), bool(coupled and ok is not None), sample=ctx if (i == 0 and oi == 0) else None,
                     features=[f"topology={case['topology']}", f"pattern={case['pattern']}", f"n={case['n']}"])
        if i < spec["nres"]:
            check_result(case, orders_for(case, rng, "quick")[-1], rec, cap, rng)
        if i % 3 == 0:
            check_reuse(case, case["compartments"], rec, cap)
        if case["km2"]:
            check_shared_kmatrix(case, case["compartments"], rec, rng)
    for i in range(spec["neq"]):
        c = check_equivalence(rng, rec, cap)
        if c:
            rec.case(("equiv", c["topology"], c["n"]), c["n"] >= 2, features=[f"equivalence={c['topology']}"])
        c = check_split(rng, rec, cap)
        if c:
            rec.case(("split", c["ta"], c["tb"], c["na"], c["nb"]), c["na"] + c["nb"] >= 3, features=["split-dataset"])


def check_reuse(case, order, rec, cap):
    """The same filled dataset model evaluated twice with the parameters changed IN PLACE in between (what an
    interactive user or a caller holding filled items does): the second matrix belongs to the new K."""
    import copy

    from glotaran.model.item import fill_item

    model, params = build_general(case, order)
    dm = fill_item(model.dataset["d1"], model, params)
    mc = dm.megacomplex[0]
    t = np.asarray(case["times"], dtype=float)
    try:
        mc.calculate_matrix(dm, np.array([0.0]), t)
        case2 = copy.deepcopy(case)
        f = 1.7
        for name in ("km1", "km2"):
            for ent in case2[name]:
                ent[1] = ent[1] * f
            for (a, b), v in case[name]:
                params.get(f"{name}_{a}_{b}").value = v * f
        labels, matrix = mc.calculate_matrix(dm, np.array([0.0]), t)
    except Exception as e:  # noqa
        if not K.spectrum_ok(reference(case, order)[0])[0]:
            return
        rec.violation(f"reuse:raises:{type(e).__name__}", dict(case, order=order), f"{type(e).__name__}: {str(e)[:200]}")
        return
    rec.count("reused_filled_models_checked")
    case2["km1"] = [[tuple(k), v] for k, v in case2["km1"]]
    case2["km2"] = [[tuple(k), v] for k, v in case2["km2"]]
    judge_matrix(case2, order, list(labels), np.asarray(matrix), rec, dict(case2, order=order, scenario="filled dataset model re-evaluated after in-place parameter change (x1.7)"), cap)


def check_split(rng, rec, cap):
    """Two decay megacomplexes of ONE dataset sharing its initial concentration: each sees the jointly normalised
    populations of its own compartments (e.g. a single populated compartment holding 0.5) and must return
    expm(K_block t) j_block for them."""
    from glotaran.model.item import fill_item
    from glotaran.parameter import Parameters
    from vf.gen.simple import all_builtin_model_class

    a = gen_scheme(rng, n=int(rng.integers(1, 4)), topology=str(rng.choice(["chain", "chain_loss", "branch", "parallel"])))
    b = gen_scheme(rng, n=int(rng.integers(1, 4)), topology=str(rng.choice(["chain", "chain_loss", "reversible", "parallel"])))
    ren = {c: "u" + c[1:] for c in b["compartments"]}
    b = dict(b, compartments=[ren[c] for c in b["compartments"]], km1=[[[ren[x], ren[y]], v] for (x, y), v in b["km1"]],
             km2=[[[ren[x], ren[y]], v] for (x, y), v in b["km2"]], exclude=[ren[c] for c in b["exclude"]])
    comps = a["compartments"] + b["compartments"]
    order = [comps[i] for i in rng.permutation(len(comps))]
    jd = dict(zip(comps, a["j"] + b["j"]))
    exclude = [c for c in a["exclude"] + b["exclude"] if len(a["exclude"]) != len(a["compartments"])][:1]
    if sum(jd[c] for c in comps if c not in exclude) <= 0:
        exclude = []
    times = a["times"] if rng.integers(2) else b["times"]
    pl, kms = [], {}
    for name, blk in (("ka", a), ("kb", b)):
        m = {}
        for (x, y), v in blk["km1"] + blk["km2"]:
            pl.append([f"{name}_{x}_{y}", float(v), {"vary": False}])
            m[(x, y)] = f"{name}_{x}_{y}"  # a later entry of km2 overrides km1: same semantics as one matrix
        kms[name] = {"matrix": m}
    for c in order:
        pl.append([f"j_{c}", float(jd[c]), {"vary": False}])
    spec = {"megacomplex": {"mca": {"type": "decay", "k_matrix": ["ka"]}, "mcb": {"type": "decay", "k_matrix": ["kb"]}}, "k_matrix": kms,
            "initial_concentration": {"j1": {"compartments": list(order), "parameters": [f"j_{c}" for c in order], "exclude_from_normalize": exclude}},
            "dataset": {"d1": {"megacomplex": ["mca", "mcb"] if rng.integers(2) else ["mcb", "mca"], "initial_concentration": "j1"}}}
    ctx = {"split": True, "a": a, "b": b, "order": order, "exclude": exclude, "times": times}
    jn = dict(zip(order, K.normalise([jd[c] for c in order], order, exclude)))
    try:
        model = all_builtin_model_class()(**spec)
        dm = fill_item(model.dataset["d1"], model, Parameters.from_list(pl))
        outs = {mc.label: mc.calculate_matrix(dm, np.array([0.0]), np.asarray(times, dtype=float)) for mc in dm.megacomplex}
    except Exception as e:  # noqa
        if not all(K.spectrum_ok(oracle_K(blk, blk["compartments"]))[0] for blk in (a, b)):
            rec.skip("K has complex or near-degenerate eigenvalues (outside the property): evaluation raised")
            return None
        rec.violation(f"split:raises:{type(e).__name__}", ctx, f"{type(e).__name__}: {str(e)[:200]}")
        return None
    ok_all = True
    for label, blk in (("mca", a), ("mcb", b)):
        labels, matrix = list(outs[label][0]), np.asarray(outs[label][1])
        bo = [c for c in order if c in blk["compartments"]]
        Kmat = oracle_K(blk, bo)
        if not K.spectrum_ok(Kmat)[0]:
            rec.skip("K has complex or near-degenerate eigenvalues (outside the property)")
            continue
        j = np.array([jn[c] for c in bo])
        if sorted(labels) != sorted(bo):
            rec.violation("split:labels", ctx, f"{label}: labels {labels} for compartments {bo}")
            return None
        tol, condV = tolerance(Kmat, j, times)
        if condV > 1e8:
            rec.skip("eigenvector matrix ill-conditioned (cond > 1e8)")
            continue
        got = np.column_stack([matrix[:, labels.index(c)] for c in bo])
        ref = K.concentrations(Kmat, j, times)
        if not np.abs(got - ref).max() <= tol:
            ref = K.concentrations_mp(Kmat, j, times)
        rec.count("split_blocks_compared")
        dev = float(np.abs(got - ref).max())
        if not dev <= tol:
            i, c = np.unravel_index(np.argmax(np.abs(got - ref)), got.shape)
            first_only = bool(j[0] != 0 and (j[1:] == 0).all())
            rec.violation(f"split:concentration-mismatch:{'single-population-not-1' if first_only and j[0] != 1 else 'other'}", ctx,
                          f"megacomplex {label} compartment {bo[c]} at t={times[i]:.4g}: {got[i, c]!r} vs expm {ref[i, c]!r} (populations seen by this megacomplex {j.tolist()}, path {'closed-form' if cap.get('sequential_path') else 'eigen'})")
            ok_all = False
    return {"na": a["n"], "nb": b["n"], "ta": a["topology"], "tb": b["topology"]} if ok_all else None


def replay(case, rec):
    cap = {}
    attach(rec, cap)
    order = case.get("order", case["compartments"])
    case = dict(case)
    case["km1"] = [[tuple(k), v] for k, v in case["km1"]]
    case["km2"] = [[tuple(k), v] for k, v in case["km2"]]
    if case.get("equivalence") or case.get("split"):
        rec.note("equivalence / split cases are regenerated by seed")
        return
    model, params = build_general(case, order)
    labels, matrix = evaluate(model, params, case["times"])
    judge_matrix(case, order, labels, matrix, rec, dict(case, order=order), cap)
