"""C19 - plugin registry: first registration wins, every plugin stays reachable.

History + executable model: drive the public registration / set / lookup / dispatch API with
operation sequences, replay the same sequence on vf.ref.registry.RegistryModel, compare the
whole observable map after every operation.
"""
from __future__ import annotations

import hashlib
import itertools
import os
import types
import warnings

import numpy as np

from vf.core import rng_for
from vf.ref.registry import RegistryModel, fn

LEVEL = "exploration"
RULE = (
    "Histories of register / set-plugin / lookup / dispatch operations on the megacomplex, data-io and "
    "project-io registries (inside monkeypatch_plugin_registry, fresh registry per history): exhaustive DFS "
    "over an alphabet of 2 short names + 1 dotted name x 4 plugin classes (two unrelated, one subclass, one "
    "with the same class name in another module) up to the stated length, plus random histories up to "
    "length 40.  After EVERY operation the complete observable map (all names the model knows + unknown "
    "probes, known-name listings, error texts, warning counts, load_*/save_* dispatch) is compared with the "
    "abstract model.  Non-trivial = history contains a conflicting registration or a successful set-plugin; "
    "distinct = distinct operation sequences."
)
ASSUMPTIONS = [
    "the reference model (vf/ref/registry.py, 60 lines) encodes the statement correctly",
    "extra registry keys the statement does not mention (bare class path of an io plugin) are latitude, not checked",
]
MIN_NONTRIVIAL = {"quick": 500, "thorough": 5000}
DECIDING = ["lookups_compared", "ops_applied", "dispatch_checked", "warnings_compared"]
EXHAUSTIVE = {"quick": True, "thorough": True}

KINDS = ["megacomplex", "data_io", "project_io"]
SHORT = ["fa", "Fb"]  # one short name with an upper-case letter: registry keys are case sensitive, also for inferred formats
DOTTED = "f.c"


def _classes(kind):
    from glotaran.io.interface import DataIoInterface, ProjectIoInterface

    log = []
    if kind == "megacomplex":
        A = type("PlugA", (), {"__module__": "vf.props.c19"})
        B = type("PlugB", (), {"__module__": "vf.props.c19"})
        C = type("PlugC", (A,), {"__module__": "vf.props.c19"})
        D = type("PlugA", (), {"__module__": "vf.other"})
        return [A, B, C, D], log

    def mk(method):
        def f(self, *a, **k):
            log.append((type(self), self.format, method))
            if method == "load_dataset":
                import xarray as xr

                return xr.Dataset({"data": (("a",), np.zeros(1))})
            if method.startswith("load"):
                return types.SimpleNamespace()
            return [] if method == "save_result" else None

        f.__name__ = method
        return f

    if kind == "data_io":
        base, methods = DataIoInterface, ["load_dataset", "save_dataset"]
    else:
        base = ProjectIoInterface
        methods = [m + "_" + o for m in ("load", "save") for o in ("model", "parameters", "scheme", "result")]
    ns = {m: mk(m) for m in methods}
    A = type("PlugA", (base,), dict(ns, __module__="vf.props.c19"))
    # PlugB is a plugin object that is falsy (a plugin keeping a cache and defining __len__, empty after registration): the
    # registry has to tell "registered" from "missing" by membership, not by the truth value of what is stored
    B = type("PlugB", (base,), dict(ns, __module__="vf.props.c19", __len__=lambda self: 0))
    C = type("PlugC", (A,), {"__module__": "vf.props.c19"})
    D = type("PlugA", (base,), dict(ns, __module__="vf.other"))
    return [A, B, C, D], log


def alphabet(kind):
    ops = []
    inst = kind != "megacomplex"
    for c in range(4):
        for n in SHORT:
            ops.append(["reg", [n], c])
        if inst:
            ops.append(["reg", list(SHORT), c])
    ops.append(["reg", [DOTTED], 0])
    if inst:
        ops.append(["reg", ["fa", DOTTED, "Fb"], 1])
    for n in SHORT:
        for c in range(4):
            for f in SHORT if inst else [None]:
                ops.append(["set", n, c, f])
    ops.append(["set", DOTTED, 0, "fa"])
    ops.append(["setraw", "fa", "nodots"])
    ops.append(["setraw", "Fb", "vf.props.c19.Nope"])
    return ops


class Driver:
    """Applies one operation to the real registry through the public API."""

    def __init__(self, kind, rec):
        import glotaran.plugin_system.base_registry as br
        from glotaran.plugin_system import data_io_registration as d
        from glotaran.plugin_system import megacomplex_registration as m
        from glotaran.plugin_system import project_io_registration as p

        self.kind, self.rec, self.br = kind, rec, br
        self.classes, self.log = _classes(kind)
        self.inst = kind != "megacomplex"
        if kind == "megacomplex":
            self.register = lambda names, cls: [m.register_megacomplex(n, cls) for n in names]
            self.setp, self.get = m.set_megacomplex_plugin, m.get_megacomplex
            self.isknown, self.known = m.is_known_megacomplex, m.known_megacomplex_names
        elif kind == "data_io":
            self.register = lambda names, cls: d.register_data_io(names if len(names) > 1 else names[0])(cls)
            self.setp, self.get = d.set_data_plugin, d.get_data_io
            self.isknown, self.known = d.is_known_data_format, d.known_data_formats
            self.mod = d
        else:
            self.register = lambda names, cls: p.register_project_io(names if len(names) > 1 else names[0])(cls)
            self.setp, self.get = p.set_project_plugin, p.get_project_io
            self.isknown, self.known = p.is_known_project_format, p.known_project_formats
            self.mod = p
        self.scratch = os.environ.get("VF_SCRATCH", ".")
        for n in SHORT + ["zz"]:
            open(os.path.join(self.scratch, f"in.{n}"), "w").close()

    def registry(self):
        return getattr(getattr(self.br, "__PluginRegistry"), self.kind)

    def apply(self, op, model: RegistryModel):
        """-> list of (mech, detail) mismatches for this operation."""
        bad = []
        with warnings.catch_warnings(record=True) as w:
            warnings.simplefilter("always")
            err = None
            try:
                if op[0] == "reg":
                    self.register(op[1], self.classes[op[2]])
                elif op[0] == "set":
                    key = f"{fn(self.classes[op[2]])}_{op[3]}" if self.inst else fn(self.classes[op[2]])
                    self.setp(op[1], key)
                else:
                    self.setp(op[1], op[2])
            except ValueError:
                err = "ValueError"
            except Exception as e:  # noqa
                err = type(e).__name__
        nwarn = sum(1 for x in w if issubclass(x.category, self.br.PluginOverwriteWarning))
        if op[0] == "reg":
            mwarn, merr = model.register(op[1], self.classes[op[2]])
        elif op[0] == "set":
            mwarn, merr = 0, model.set(op[1], model.fullkey(self.classes[op[2]], op[3]))
        else:
            mwarn, merr = 0, model.set(op[1], op[2])
        self.rec.count("ops_applied")
        self.rec.count("warnings_compared")
        if nwarn != mwarn:
            bad.append((f"warning-count:{op[0]}", f"expected {mwarn} PluginOverwriteWarning, saw {nwarn}"))
        if err != merr:
            bad.append((f"error:{op[0]}", f"expected {merr}, got {err}"))
        bad.extend(self.compare(model))
        return bad, bool(mwarn) or (op[0] == "set" and merr is None)

    def ident(self, obj):
        if self.inst:
            return (type(obj), getattr(obj, "format", None))
        return (obj, None)

    def compare(self, model: RegistryModel):
        bad = []
        keys = model.known_all() + ["zz", "vf.props.c19.Nope_fa", "vf.props.c19.Nope"]
        for key in keys:
            want = model.lookup(key)
            try:
                got = self.ident(self.get(key))
            except ValueError as e:
                got = "ValueError"
                msg = str(e)
                if want == "ValueError":
                    for s in model.known_short():
                        if repr(s) not in msg and s not in msg.replace(key, ""):
                            bad.append(("unknown-message", f"error for {key!r} does not name known {s!r}: {msg}"))
            self.rec.count("lookups_compared")
            if got != want:
                kind = "short" if "." not in key else "full"
                bad.append((f"lookup:{kind}", f"{key!r}: expected {want}, got {got}"))
            if self.isknown(key) != (want != "ValueError"):
                bad.append(("is-known", f"{key!r}"))
        if self.known() != model.known_short():
            bad.append(("known-names", f"{self.known()} != {model.known_short()}"))
        if not set(model.known_all()) <= set(self.known(full_names=True)):
            bad.append(("known-full-names", f"{self.known(full_names=True)} misses some of {model.known_all()}"))
        return bad

    def dispatch(self, model: RegistryModel):
        """load_* / save_* must reach the plugin the model resolves (explicit and inferred format)."""
        if not self.inst:
            return []
        bad = []
        methods = (
            ["load_dataset", "save_dataset"]
            if self.kind == "data_io"
            else [m + "_" + o for m in ("load", "save") for o in ("model", "parameters", "scheme", "result")]
        )
        targets = [(k, None) for k in model.known_all()] + [(None, s) for s in SHORT + ["zz"]]
        for meth in methods:
            func = getattr(self.mod, meth)
            for fmt, ext in targets:
                key = fmt if fmt is not None else ext
                want = model.lookup(key)
                if meth.startswith("load"):
                    path = os.path.join(self.scratch, f"in.{ext or 'fa'}")
                    args = (path,)
                else:
                    path = os.path.join(self.scratch, f"absent.{ext or 'fa'}")
                    payload = types.SimpleNamespace(attrs={})
                    if meth == "save_dataset":
                        import xarray as xr

                        payload = xr.Dataset({"data": (("a",), np.zeros(1))})
                    args = (payload, path)
                del self.log[:]
                try:
                    func(*args, **({"format_name": fmt} if fmt else {}))
                    got = self.log[0][:2] if self.log else "nothing-called"
                    if self.log and self.log[0][2] != meth:
                        got = f"wrong method {self.log[0][2]}"
                    if len(self.log) > 1:
                        got = f"{len(self.log)} plugin calls"
                except ValueError:
                    got = "ValueError"
                self.rec.count("dispatch_checked")
                if got != want:
                    how = "explicit" if fmt else "inferred"
                    bad.append((f"dispatch:{how}", f"{meth}({key!r}): expected {want}, reached {got}"))
                if fmt is not None:
                    # an explicit format name decides alone: a path WITHOUT extension (nothing to infer from) reaches the same plugin
                    noext = os.path.join(self.scratch, "in_noext" if meth.startswith("load") else "absent_noext")
                    if meth.startswith("load") and not os.path.exists(noext):
                        open(noext, "w").close()
                    del self.log[:]
                    try:
                        func(*((noext,) if meth.startswith("load") else (args[0], noext)), format_name=fmt)
                        got = self.log[0][:2] if self.log else "nothing-called"
                        if self.log and self.log[0][2] != meth:
                            got = f"wrong method {self.log[0][2]}"
                    except ValueError:
                        got = "ValueError"
                    except Exception as e:  # noqa
                        got = f"{type(e).__name__}"
                    self.rec.count("dispatch_checked")
                    if got != want:
                        bad.append(("dispatch:explicit:no-extension", f"{meth}(<path without extension>, format_name={key!r}): expected {want}, reached {got}"))
                if meth == "load_result" and fmt is not None:
                    # the same with an EXISTING DIRECTORY as path (results are folders): an explicit format name still decides
                    d = os.path.join(self.scratch, "result_folder")
                    os.makedirs(d, exist_ok=True)
                    del self.log[:]
                    try:
                        func(d, format_name=fmt)
                        got = self.log[0][:2] if self.log else "nothing-called"
                        if self.log and self.log[0][2] != meth:
                            got = f"wrong method {self.log[0][2]}"
                    except ValueError:
                        got = "ValueError"
                    except Exception as e:  # noqa
                        got = f"{type(e).__name__}"
                    self.rec.count("dispatch_checked")
                    if got != want:
                        bad.append(("dispatch:explicit:directory", f"load_result(<existing folder>, format_name={key!r}): expected {want}, reached {got}"))
        return bad


def run_history(drv: Driver, hist, rec, dispatch_every=1):
    reg = drv.registry()
    reg.clear()
    model = RegistryModel(drv.inst)
    nontrivial = False
    for i, op in enumerate(hist):
        bad, nt = drv.apply(op, model)
        nontrivial = nontrivial or nt
        if dispatch_every and (i + 1) % dispatch_every == 0:
            bad.extend(drv.dispatch(model))
        for mech, detail in bad:
            rec.violation(f"{drv.kind}:{mech}", {"kind": drv.kind, "history": hist[: i + 1]}, detail)
        if bad:
            break
    return nontrivial


def _sig(kind, hist):
    return hashlib.sha1(repr((kind, hist)).encode()).hexdigest()[:10]


def plan(tier, seed):
    depth = {"quick": 3, "thorough": 4}[tier]
    specs = []
    for kind in KINDS:
        n = len(alphabet(kind))
        for first in range(n):
            specs.append({"mode": "dfs", "kind": kind, "first": first, "depth": depth, "shard": len(specs)})
    nrand = {"quick": 16, "thorough": 48}[tier]
    for i in range(nrand):
        specs.append(
            {"mode": "random", "kind": KINDS[i % 3], "n": {"quick": 150, "thorough": 1500}[tier], "shard": 1000 + i}
        )
    # group DFS specs so that a process handles several first-ops (import cost dominates)
    grouped, dfs = [], [s for s in specs if s["mode"] == "dfs"]
    ngroups = 32
    for g in range(ngroups):
        part = dfs[g::ngroups]
        if part:
            grouped.append({"mode": "dfsgroup", "parts": part, "shard": g})
    return grouped + [s for s in specs if s["mode"] == "random"]


def run_shard(spec, rec):
    from glotaran.testing.plugin_system import monkeypatch_plugin_registry

    with monkeypatch_plugin_registry(
        test_megacomplex={}, test_data_io={}, test_project_io={}, create_new_registry=True
    ):
        if spec["mode"] == "dfsgroup":
            for part in spec["parts"]:
                _dfs(part, rec)
        else:
            _random(spec, rec)


def _dfs(spec, rec):
    kind = spec["kind"]
    drv = Driver(kind, rec)
    ops = alphabet(kind)
    first = ops[spec["first"]]
    for L in range(1, spec["depth"] + 1):
        for rest in itertools.product(ops, repeat=L - 1):
            hist = [first, *rest]
            # dispatch is checked after the last operation of every history (every prefix is
            # itself a history of the enumeration, so every state gets a dispatch check)
            nt = run_history(drv, hist, rec, dispatch_every=L)
            rec.case(_sig(kind, hist), nt, sample=None if rec.evaluations % 5000 else {"kind": kind, "history": hist})
    rec.count(f"dfs_{kind}_depth", 0)
    rec.features[f"dfs:{kind}:depth={spec['depth']}"] += 1


def _random(spec, rec):
    kind = spec["kind"]
    rng = rng_for(spec)
    drv = Driver(kind, rec)
    ops = alphabet(kind)
    for i in range(spec["n"]):
        L = int(rng.integers(5, 41))
        # bias towards registrations early, sets later
        hist = [ops[int(rng.integers(len(ops)))] for _ in range(L)]
        nt = run_history(drv, hist, rec, dispatch_every=int(rng.integers(1, 6)))
        rec.case(_sig(kind, hist), nt, sample={"kind": kind, "history": hist} if i < 1 else None)
        rec.features[f"random:{kind}"] += 1


def replay(case, rec):
    from glotaran.testing.plugin_system import monkeypatch_plugin_registry

    with monkeypatch_plugin_registry(
        test_megacomplex={}, test_data_io={}, test_project_io={}, create_new_registry=True
    ):
        drv = Driver(case["kind"], rec)
        run_history(drv, case["history"], rec, dispatch_every=1)
