"""C16 - parameter files round-trip in every supported format; yml/dict/list == programmatic.

Oracle: field-by-field comparison at the API (labels in order, exact floats, NaN==NaN, +-inf,
flags, expressions), Parameters.__eq__, byte idempotence of a second save, expression values
re-evaluated after loading (C12 evaluator); for yml text an expectation built by the harness.
"""
from __future__ import annotations

import json
import math
import re
import os
import struct

import numpy as np

from vf.core import rng_for
from vf.ref import expr as X

LEVEL = "exploration"
RULE = (
    "Seeded generator of valid parameter sets (2-12 parameters): label classes {flat, nested, purely numeric parts such "
    "as '1', '01', '1.10', '2e3', reader-keyword-like 'true' 'none' 'NA' 'null' 'NaN'}, value classes {ordinary, random bit "
    "patterns over the full double range incl. subnormals and extremes, integral, negative zero}, standard errors NaN or "
    "positive, bounds finite / one-sided / infinite, every vary / non-negative combination incl. constant columns, "
    "expressions referencing other groups and constant expressions; formats csv, tsv, xlsx, ods, csv with ';' separator and "
    "with replace_infinfinity off; save -> load -> save -> load. yml: specification texts (lists, nested groups, default "
    "blocks, automatic numbering, scientific-notation strings) against harness-built expectations, through yml_str and "
    "yml file, and from_list/from_dict. Non-trivial: >= 2 parameters with different option sets; distinct = (format, label "
    "class, value class, column-type class)."
)
ASSUMPTIONS = [
    "Python float repr round-trips (float(repr(x)) == x) defines 'text round-trip precision'",
    "expected yml semantics (auto-numbering by position among non-default items, defaults block per group, options override defaults) are read off the documentation/tests",
]
MIN_NONTRIVIAL = {"quick": 60, "thorough": 200}
DECIDING = ["roundtrips_compared", "mon:to_dataframe", "mon:from_dataframe", "yml_specs_compared"]

FORMATS = ["csv", "tsv", "xlsx", "ods", "csv;", "csv_inf"]
KEYWORDISH = ["true", "none", "NA", "null", "NaN", "false", "NULL", "TRUE", "n_a"]


# ---------------------------------------------------------------- generator
def rand_double(rng, cls):
    if cls == "ordinary":
        return float(rng.uniform(-10, 10))
    if cls == "bits":
        while True:
            v = struct.unpack("<d", struct.pack("<Q", int(rng.integers(0, 2**63)) | (int(rng.integers(2)) << 63)))[0]
            if math.isfinite(v):
                return v
    if cls == "integral":
        return float(rng.integers(-1000, 1000))
    if cls == "extreme":
        return float(rng.choice([5e-324, 2.2250738585072014e-308, 1.7976931348623157e308, -1.7976931348623157e308, 1e22, 1e23,
                                 0.1, 1 / 3, -0.0, 123456789.12345678, 9007199254740993.0, 4.35e-5, 2.5e-16]))
    if cls == "scaled":
        return float(np.ldexp(rng.uniform(0.5, 1), int(rng.integers(-300, 300))))
    raise ValueError(cls)


def gen_labels(rng, cls, n):
    out = []
    groups = ["rates", "irf", "a.b", "kin", "s"]
    while len(out) < n:
        if cls == "flat":
            l = str(rng.choice(["k", "x_", "par", "Q"])) + str(len(out))
        elif cls == "nested":
            l = f"{rng.choice(groups)}.{rng.choice(['k', 'c', 'w'])}{len(out)}"
        elif cls == "numeric_canonical":
            l = str(len(out) + 1) if rng.integers(2) else f"{rng.choice(groups)}.{len(out) + 1}"
        elif cls == "numeric_noncanonical":
            part = str(rng.choice(["01", "1.10", "2.50", "007", "1e3", "2E2", "10.0", "1_000", "0x10"])) + ("" if not out else str(len(out)))
            l = part if rng.integers(2) else f"{rng.choice(groups)}.{part}"
        elif cls == "keywordish":
            base = str(rng.choice(KEYWORDISH))
            l = base if rng.integers(2) else f"{rng.choice(groups)}.{base}"
        else:
            raise ValueError(cls)
        if l not in out:
            out.append(l)
    return out


def gen_set(rng):
    n = int(rng.integers(2, 13))
    lcls = str(rng.choice(["flat", "nested", "numeric_canonical", "numeric_noncanonical", "keywordish", "nested", "flat"]))
    vcls = str(rng.choice(["ordinary", "bits", "integral", "extreme", "scaled"]))
    labels = gen_labels(rng, lcls, n)
    if lcls in ("numeric_noncanonical", "keywordish"):
        # mix with ordinary labels so that a column is not homogeneous
        for i in range(n):
            if rng.integers(3) == 0:
                labels[i] = f"p{i}"
    colcls = str(rng.choice(["mixed", "all_default", "const_flags", "mixed"]))
    plist = []
    plain = []
    for i, l in enumerate(labels):
        p = {"label": l, "value": rand_double(rng, vcls)}
        if colcls != "all_default":
            if rng.integers(3) == 0:
                p["standard_error"] = abs(rand_double(rng, "scaled"))
                if rng.integers(6) == 0:
                    p["standard_error"] = float("inf")  # what a singular covariance leaves behind: a float like any other
            r = int(rng.integers(5))
            if r == 0:
                p["minimum"] = float(min(p["value"], rand_double(rng, vcls)))
            elif r == 1:
                p["maximum"] = float(max(p["value"], rand_double(rng, vcls)))
            elif r == 2:
                lo, hi = sorted([rand_double(rng, vcls), rand_double(rng, vcls)])
                p["minimum"], p["maximum"] = float(lo), float(hi)
            if colcls == "const_flags":
                p["vary"], p["non_negative"] = False, True
            else:
                p["vary"] = bool(rng.integers(2))
                p["non_negative"] = bool(rng.integers(2))
        plain.append(l)
        plist.append(p)
    # expressions on up to 2 parameters (not for colcls all_default half of the time)
    nexpr = int(rng.integers(0, 3)) if n > 2 else 0
    for j in range(nexpr):
        i = int(rng.integers(n))
        others = [q["label"] for q in plist if q["label"] != plist[i]["label"] and "expression" not in q]
        if not others:
            break
        kind = int(rng.integers(4))
        if kind == 0:
            e = f"${others[0]} * 2"
        elif kind == 1 and len(others) > 1:
            e = f"${others[0]} + ${others[1]}"
        elif kind == 2:
            e = f"exp(-abs(${others[-1]}) * 1e-3) + 0.5"
        else:
            e = str(rng.choice(["2", "1.5", "1e3"]))  # constant expression
        plist[i] = {"label": plist[i]["label"], "expression": e}
    return {"params": plist, "label_class": lcls, "value_class": vcls, "column_class": colcls}


def build(case):
    """The parameter set as a user may have arrived at it: every second expression is assigned AFTER construction
    (parameter.expression = ...; update_parameter_expression()) - what is saved is the object's current state."""
    from glotaran.parameter import Parameter, Parameters

    late = [p["label"] for i, p in enumerate(case["params"]) if p.get("expression") is not None and i % 2 == 0]
    if not late:
        return Parameters({p["label"]: Parameter(**p) for p in case["params"]})
    ps = Parameters({p["label"]: Parameter(**({k: v for k, v in p.items() if k != "expression"} if p["label"] in late else p), **({"value": 0.0, "vary": False} if p["label"] in late and "value" not in p else {}))
                     for p in case["params"]})
    exprs = {p["label"]: p["expression"] for p in case["params"] if p["label"] in late}
    for label, e in exprs.items():
        ps.get(label).expression = e
    ps.update_parameter_expression()
    return ps


# ---------------------------------------------------------------- oracle
FIELDS = ["label", "value", "standard_error", "minimum", "maximum", "vary", "non_negative", "expression"]


def same(a, b):
    if isinstance(a, float) and isinstance(b, float):
        if a != a and b != b:
            return True
        return a == b  # -0.0 == 0.0: numerically equal parameters (ods drops the sign of zero)
    return type(a) is type(b) and a == b


def compare(orig, loaded):
    """-> list of (mech, detail)."""
    out = []
    a = [p.as_dict() for p in orig.all()]
    b = [p.as_dict() for p in loaded.all()]
    la, lb = [p["label"] for p in a], [p["label"] for p in b]
    if la != lb:
        if sorted(la) == sorted(lb):
            out.append(("order-changed", f"{la} -> {lb}"))
        else:
            out.append(("label-changed", f"{[x for x in la if x not in lb]} -> {[x for x in lb if x not in la]}"))
        return out
    for pa, pb in zip(a, b):
        for f in FIELDS[1:]:
            va, vb = pa[f], pb[f]
            if isinstance(va, (int, float)) and not isinstance(va, bool) and isinstance(vb, (int, float)) and not isinstance(vb, bool):
                va, vb = float(va), float(vb)
            if f == "value" and pa["expression"] is not None:
                continue  # judged by re-evaluation below
            if not same(va, vb):
                kind = "float" if isinstance(va, float) else "flag" if isinstance(va, bool) else f
                rel = ""
                if isinstance(va, float) and isinstance(vb, float) and va == va and vb == vb and va != 0:
                    rel = f" rel={abs(va - vb) / abs(va):.2e}"
                out.append((f"{kind}-changed:{f}", f"{pa['label']}.{f}: {va!r} -> {vb!r}{rel}"))
    return out


def g16(x):
    try:
        return float("%.16g" % x)
    except (OverflowError, ValueError):
        return float("inf")


def f9c_model(orig, loaded):
    """F9c bug model: every float of the loaded set equals the original pushed through openpyxl's
    '%.16g' serialisation (16 significant digits; 17 are needed for a double)."""
    for pa, pb in zip(orig.all(), loaded.all()):
        if pa.expression is not None:
            continue
        for f in ("value", "standard_error", "minimum", "maximum"):
            va, vb = getattr(pa, f), getattr(pb, f)
            if not isinstance(vb, (int, float)):
                return False
            va, vb = float(va), float(vb)
            if not (same(g16(va), vb) or same(va, vb)):
                return False
    return True


def xlsx_models(orig, loaded, allow_g16=True):
    """-> 'F9c' if every float difference is explained by openpyxl's %.16g; 'F9g' if additionally
    missing entries of a column that holds an integral value >= 2**63 came back as the string 'None'
    (pandas turns such a column into an object column and skips NA conversion); else None."""
    huge_cols = set()
    for pa in orig.all():
        for f in ("value", "standard_error", "minimum", "maximum"):
            v = getattr(pa, f)
            if isinstance(v, float) and math.isfinite(v) and abs(g16(v)) >= 2.0**63:
                huge_cols.add(f)
    used_g = False
    for pa, pb in zip(orig.all(), loaded.all()):
        if pa.expression is not None:
            continue
        for f in ("value", "standard_error", "minimum", "maximum"):
            va, vb = getattr(pa, f), getattr(pb, f)
            if isinstance(vb, str):
                if vb == "None" and f in huge_cols and isinstance(va, float) and va != va:
                    used_g = True
                    continue
                if vb in ("inf", "-inf") and f in huge_cols and isinstance(va, float) and va == float(vb):
                    used_g = True  # the same object column: an infinite entry stays the text it was written as
                    continue
                return None
            va, vb = float(va), float(vb)
            if not ((allow_g16 and same(g16(va), vb)) or same(va, vb)):
                return None
    return "F9g" if used_g else ("F9c" if allow_g16 else None)


def known_finding_for_exception(case, ext, e):
    import pandas._libs.parsers as pp

    if ext == "xlsx" and isinstance(e, OverflowError):
        # F9c predicate: a float so close to the largest double that its 16-digit text overflows
        for p in case["params"]:
            for f in ("value", "standard_error", "minimum", "maximum"):
                v = p.get(f)
                if isinstance(v, float) and math.isfinite(v) and math.isinf(g16(v)):
                    return "F9c"
    m = re.fullmatch(r"Column '(minimum|maximum|value)' in '(.+)' has non numeric values\.", str(e)) if isinstance(e, ValueError) else None
    if ext in ("xlsx", "ods") and m:
        # F9g predicate: that column holds a finite value >= 2**63 (comes back as a Python int that does not fit int64);
        # bug model: pandas itself returns the column with dtype object holding such an int
        col, path = m.group(1), m.group(2)
        pred = any(isinstance(p.get(col), float) and math.isfinite(p[col]) and abs(g16(p[col])) >= 2.0**63 for p in case["params"])
        if pred:
            try:
                import pandas as pd

                raw = pd.read_excel(path)[col]
                if raw.dtype == object and any(isinstance(v, int) and abs(v) >= 2**63 for v in raw):
                    return "F9g"
            except Exception:  # noqa
                pass
    if ext in ("xlsx", "ods") and isinstance(e, ValueError) and str(e) == "'nan' is not a valid parameter label.":
        tokens = set(pp.STR_NA_VALUES) | {"None", "none"}
        if any(p["label"] in tokens for p in case["params"]):
            return "F9e"
    return None


def expr_consistent(loaded):
    vals = {p.label: float(p.value) for p in loaded.all()}
    bad = []
    for p in loaded.all():
        if p.expression is not None:
            try:
                want = float(X.eval_text(p.expression, vals))
            except Exception as e:  # noqa
                bad.append(f"{p.label}: oracle cannot evaluate {p.expression!r}: {e}")
                continue
            if not X.close(vals[p.label], want, 1.0):
                bad.append(f"{p.label}={vals[p.label]!r} but {p.expression!r} gives {want!r}")
            if p.vary:
                bad.append(f"{p.label}: expression parameter has vary=True")
    return bad


def roundtrip(case, fmt, rec, scratch):
    from glotaran.io import load_parameters, save_parameters

    p = build(case)
    ext = {"csv;": "csv", "csv_inf": "csv"}.get(fmt, fmt)
    f1 = os.path.join(scratch, f"rt1.{ext}")
    f2 = os.path.join(scratch, f"rt2.{ext}")
    skw, lkw = {}, {}
    if fmt == "csv;":
        skw, lkw = {"sep": ";"}, {"sep": ";"}
    if fmt == "csv_inf":
        skw = {"replace_infinfinity": False}
    ctx = dict(case, format=fmt)
    try:
        save_parameters(p, f1, allow_overwrite=True, **skw)
        q = load_parameters(f1, **lkw)
    except Exception as e:  # noqa
        finding = known_finding_for_exception(case, ext, e)
        rec.violation(f"{finding + ':' if finding else ''}{ext}:raises:{type(e).__name__}:{case['label_class']}", ctx,
                      f"{type(e).__name__}: {e}", finding)
        return
    rec.count("roundtrips_compared")
    bad = compare(p, q)
    if ext in ("xlsx", "ods") and bad and all(m.startswith("float-changed") for m, _ in bad):
        which = xlsx_models(p, q, allow_g16=ext == "xlsx")
        if which:
            for mech, detail in bad:
                rec.violation(f"{which}:{ext}:{mech.split(':')[0]}", ctx, detail, which)
            return
    for mech, detail in bad:
        extra = f":{case['label_class']}" if mech.startswith(("label", "order")) else ""
        rec.violation(f"{ext}:{mech}{extra}", ctx, detail)
    if not bad:
        try:
            if not (q == p):
                rec.violation(f"{ext}:eq-false", ctx, "fields equal but Parameters.__eq__ is False")
        except Exception as e:  # noqa
            rec.violation(f"{ext}:eq-raises", ctx, repr(e))
        for b in expr_consistent(q):
            rec.violation(f"{ext}:expression-not-reevaluated", ctx, b)
    # idempotence: save the loaded set again
    try:
        save_parameters(q, f2, allow_overwrite=True, **skw)
        q2 = load_parameters(f2, **lkw)
        rec.count("idempotence_compared")
        for mech, detail in compare(q, q2):
            rec.violation(f"{ext}:not-idempotent:{mech}", ctx, detail)
        if ext in ("csv", "tsv") and open(f1, "rb").read() != open(f2, "rb").read() and not bad:
            rec.violation(f"{ext}:not-idempotent:bytes", ctx, "second save differs byte-wise")
    except Exception as e:  # noqa
        if not bad:
            rec.violation(f"{ext}:second-cycle-raises:{type(e).__name__}", ctx, f"{type(e).__name__}: {e}")


# ---------------------------------------------------------------- yml specifications
def fmt_num(rng, v, allow_dot=False):
    """Render a float in one of the notations a user writes; returns (text, value)."""
    c = int(rng.integers(6 if allow_dot else 5))
    if c == 5:
        # mantissa without a digit before the point, with / without sign: .5e-3  -.25E2  +.75e3
        mant = int(rng.integers(1, 100))
        e = int(rng.integers(-5, 6))
        txt = f"{str(rng.choice(['', '-', '+']))}.{mant}{str(rng.choice(['e', 'E']))}{e}"
        return txt, float(txt)
    if c == 0:
        return repr(v), v
    if c == 1:
        m, e = f"{v:e}".split("e")
        txt = f"{float(m)!r}e{int(e)}"  # 1.5e3 -> yaml 1.1 resolver needs a dot and sign for floats; PyYAML reads '1.5e3' as str
        return txt, float(txt)
    if c == 2:
        e = int(rng.integers(-5, 6))
        mant = int(rng.integers(1, 10))
        txt = f"{mant}e{e}"  # no dot: PyYAML yields a str -> must still become a number
        return txt, float(txt)
    if c == 3:
        e = int(rng.integers(1, 6))
        mant = int(rng.integers(1, 10))
        txt = f"{mant}E{e}"
        return txt, float(txt)
    i = int(rng.integers(-50, 50))
    return str(i), float(i)


def gen_yml(rng):
    """-> (yml text, expected list of parameter dicts in order, is_list)."""
    opts_pool = [("vary", False), ("min", None), ("max", None), ("non-negative", True), ("standard-error", None), ("expr", None)]
    DES = {"min": "minimum", "max": "maximum", "non-negative": "non_negative", "standard-error": "standard_error", "expr": "expression",
           "vary": "vary"}
    expected = []
    lines = []

    def gen_options(allow_expr, known_labels):
        o, txt = {}, []
        for k, v in opts_pool:
            if rng.integers(4):
                continue
            if k in ("min", "max", "standard-error"):
                t, val = fmt_num(rng, float(rng.uniform(0, 5)))
                o[k] = val
                txt.append(f"{k}: {t}")
            elif k == "expr":
                if not allow_expr or not known_labels:
                    continue
                ref = known_labels[int(rng.integers(len(known_labels)))]
                op = str(rng.choice(["* 2", "// 2", "/ 2", "** 2", "+ 1 # not a comment"]))  # also text a path normaliser would rewrite
                op = op if not op.startswith("+") else "+ 1"
                o[k] = f"${ref} {op}"
                txt.append(f"{k}: '${ref} {op}'")
            else:
                o[k] = v
                txt.append(f"{k}: {str(v).lower()}")
        return o, "{" + ", ".join(txt) + "}"

    def gen_group(prefix, indent):
        n = int(rng.integers(1, 5))
        defaults, dtxt = ({}, None)
        if rng.integers(2):
            defaults, dtxt = gen_options(False, [])
        dpos = int(rng.integers(0, n + 1))
        pos = 0
        for i in range(n + (1 if dtxt else 0)):
            if dtxt and i == dpos:
                lines.append(f"{indent}- {dtxt}")
                continue
            pos += 1
            form = int(rng.integers(5))
            # (the leading-dot notation only as the value of a [label, value, ...] item: as a bare item or an option the
            # text is not a number for the yml reader and its treatment is not part of the statement)
            vt, val = fmt_num(rng, float(rng.uniform(-3, 3)), allow_dot=form in (1, 2, 4))
            known = [e["label"] for e in expected if "expression" not in e]
            own, otxt = gen_options(True, known) if form in (2, 4) else ({}, None)
            if form == 0:
                label = str(pos)
                lines.append(f"{indent}- {vt}")
            elif form == 1:
                label = f"p{pos}"
                lines.append(f"{indent}- [{label}, {vt}]")
            elif form == 2:
                label = f"q{pos}"
                lines.append(f"{indent}- [{label}, {vt}, {otxt}]")
            elif form == 3:
                label = str(pos)
                lines.append(f"{indent}- [{vt}]")
            else:
                label = f"r{pos}"
                lines.append(f"{indent}- [{vt}, {label}, {otxt}]")
            e = {"label": f"{prefix}{label}", "value": val}
            for k, v in {**defaults, **own}.items():
                e[DES[k]] = v
            if "expression" in e:
                e["vary"] = False
                del e["value"]
            expected.append(e)

    is_list = bool(rng.integers(3) == 0)
    if is_list:
        gen_group("", "")
    else:
        for g in list(rng.choice(["rates", "irf", "kin", "osc"], size=int(rng.integers(1, 4)), replace=False)):
            if rng.integers(3) == 0:
                lines.append(f"{g}:")
                for sub in list(rng.choice(["a", "b", "c1"], size=int(rng.integers(1, 3)), replace=False)):
                    lines.append(f"  {sub}:")
                    gen_group(f"{g}.{sub}.", "    ")
            else:
                lines.append(f"{g}:")
                gen_group(f"{g}.", "  ")
    return "\n".join(lines) + "\n", expected, is_list


def check_yml(rng, rec, scratch):
    from glotaran.io import load_parameters
    from glotaran.parameter import Parameter, Parameters

    text, expected, is_list = gen_yml(rng)
    ctx = {"yml": text, "expected": expected}
    try:
        want = Parameters({e["label"]: Parameter(**e) for e in expected})
    except Exception as e:  # noqa
        rec.skip(f"harness expectation invalid: {type(e).__name__}")
        return None
    how = int(rng.integers(2))
    try:
        if how == 0:
            got = load_parameters(text, format_name="yml_str")
        else:
            path = os.path.join(scratch, "spec.yml")
            open(path, "w").write(text)
            got = load_parameters(path)
    except Exception as e:  # noqa
        rec.violation(f"yml:raises:{type(e).__name__}", ctx, f"{type(e).__name__}: {e}")
        return None
    rec.count("yml_specs_compared")
    for mech, detail in compare(want, got):
        rec.violation(f"yml:{mech}", ctx, detail)
    # the same specification as an IN-MEMORY dict / list, loaded twice from the same object: loading must not consume it
    import copy

    from glotaran.builtin.io.yml.utils import load_dict

    try:
        obj = load_dict(text, False)
        obj = json.loads(json.dumps(obj))  # plain dict / list / float objects
        keep = copy.deepcopy(obj)
        loads = []
        for _ in range(2):
            loads.append(Parameters.from_list(obj) if isinstance(obj, list) else Parameters.from_dict(obj))
        rec.count("in_memory_specs_loaded_twice")
        if obj != keep:
            # the library completes short items in place (a bare [value] gets its number as label): not covered by the
            # statement as long as every later load of the object still gives the same parameters (judged below)
            rec.count("in_memory_specs_completed_in_place")
        for n, got2 in enumerate(loads):
            for mech, detail in compare(want, got2):
                rec.violation(f"in-memory-spec:load-{n + 1}:{mech}", ctx, detail)
                break
    except Exception as e:  # noqa
        rec.violation(f"in-memory-spec:raises:{type(e).__name__}", ctx, f"{type(e).__name__}: {str(e)[:200]}")
    for b in expr_consistent(got):
        rec.violation("yml:expression-not-evaluated", ctx, b)
    nopt = len({tuple(sorted((k, repr(v)) for k, v in e.items() if k not in ("label", "value"))) for e in expected})
    return ("yml", is_list, len(expected), nopt, how), nopt >= 2 and len(expected) >= 2, ctx


# ---------------------------------------------------------------- shards
def plan(tier, seed):
    n = {"quick": 16, "thorough": 32}[tier]
    return [{"shard": i, "ncsv": {"quick": 170, "thorough": 1500}[tier], "nxl": {"quick": 12, "thorough": 90}[tier],
             "nods": {"quick": 5, "thorough": 40}[tier], "nyml": {"quick": 150, "thorough": 1500}[tier]} for i in range(n)]


def attach(rec):
    import glotaran.builtin.io.pandas.csv as csvmod
    import glotaran.builtin.io.pandas.xlsx as xlmod
    from glotaran.parameter import Parameters
    from vf.instrument import wrap

    wrap(Parameters, "to_dataframe", rec=rec, key="mon:to_dataframe")
    wrap(Parameters, "from_dataframe", rec=rec, key="mon:from_dataframe")
    for mod in (csvmod, xlmod):
        # diagnostic counters only: a plugin that no longer uses these helpers is still judged by its round trips
        for helper in ("safe_dataframe_fillna", "safe_dataframe_replace"):
            if hasattr(mod, helper):
                wrap(mod, helper, rec=rec, key=f"mon:{helper}")
            else:
                rec.count(f"helper-not-used:{mod.__name__.rsplit('.', 1)[-1]}:{helper}")


def run_shard(spec, rec):
    attach(rec)
    rng = rng_for(spec)
    scratch = os.environ.get("VF_SCRATCH", ".")
    plan_ = [("csv", spec["ncsv"] // 2), ("tsv", spec["ncsv"] // 4), ("csv;", spec["ncsv"] // 8), ("csv_inf", spec["ncsv"] // 8),
             ("xlsx", spec["nxl"]), ("ods", spec["nods"])]
    for fmt, n in plan_:
        for i in range(n):
            case = gen_set(rng)
            roundtrip(case, fmt, rec, scratch)
            optsets = {tuple(sorted((k, repr(v)) for k, v in p.items() if k not in ("label", "value"))) for p in case["params"]}
            rec.case((fmt, case["label_class"], case["value_class"], case["column_class"], len(case["params"]) > 6),
                     len(optsets) >= 2, sample=dict(case, format=fmt) if i == 0 else None,
                     features=[f"fmt={fmt}", f"labels={case['label_class']}", f"values={case['value_class']}"])
    for i in range(spec["nyml"]):
        out = check_yml(rng, rec, scratch)
        if out is None:
            rec.case(None, False)
            continue
        sig, nt, ctx = out
        rec.case(sig, nt, sample=ctx if i == 0 else None, features=["fmt=yml"])


def replay(case, rec):
    attach(rec)
    scratch = os.environ.get("VF_SCRATCH", ".")
    if "yml" in case:
        from glotaran.io import load_parameters
        from glotaran.parameter import Parameter, Parameters

        want = Parameters({e["label"]: Parameter(**e) for e in case["expected"]})
        got = load_parameters(case["yml"], format_name="yml_str")
        for mech, detail in compare(want, got):
            rec.violation(f"yml:{mech}", case, detail)
        return
    for p in case["params"]:
        for k, v in list(p.items()):
            if v in ("nan", "inf", "-inf"):
                p[k] = float(v)
    roundtrip(case, case["format"], rec, scratch)
