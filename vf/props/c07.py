"""C07 - oscillation, artifact and spectral basis functions obey their definitions.

Monitors: postcondition-style wrappers on calculate_matrix of damped-oscillation, pfid,
coherent-artifact, spectral and on SpectralShape*.calculate (call counters; the oracle judges the
returned matrices by label).
Oracle: closed forms / 40-digit mpmath convolution (vf.ref.irf) with the effective IRF position of
C05's oracle (centre_i - shift_i + dispersion), documented shape formulae.
"""
from __future__ import annotations

import numpy as np

from vf.core import rng_for
from vf.props import c05
from vf.ref import irf as I

LEVEL = "exploration"
RULE = (
    "Damped oscillations (1-3, frequencies 0..2000 cm^-1 below the implementation's documented aliasing guard, damping 0..30) "
    "without IRF and with (multi-)Gaussian IRF (widths 1e-3..5, 1-3 Gaussians with scales, per-index shifts, dispersion): cos/sin "
    "columns by label == Re/Im of exp(-(gamma + i omega) t) resp. c x the causal oscillation convolved with the IRF (one real "
    "constant c per model, estimated at the largest entry and demanded everywhere), <= 6e-7 c before the pulse (t - centre < -5 "
    "widths); PFID likewise anti-causal with omega = 2 pi 0.03 (nu_probe - nu_a); both with the effective IRF position of the decay "
    "model per index.  Coherent artifact orders 1-3 with own / IRF width == Gaussian, first and second derivative (also by central "
    "finite differences).  Spectral shapes: documented formulae, amplitude at the location, half maximum at +-FWHM/2 (Gaussian) "
    "and at x0 + Delta (e^(+-b) - 1) / (2b) (skewed), zero where the log argument <= 0, continuity in b -> 0 across the switch, "
    "inverted / scaled axes.  Non-trivial: column norm > 1e-6 and > 3 points after the pulse; distinct = (megacomplex, IRF kind, "
    "number of oscillations / Gaussians, shift, dispersion, regime)."
)
ASSUMPTIONS = c05.ASSUMPTIONS[:2] + [
    "frequencies above the implementation's aliasing guard are excluded (the statement defines the column by the frequency itself)",
    "any single real proportionality constant is accepted for IRF-convolved oscillations / PFID",
]
MIN_NONTRIVIAL = {"quick": 150, "thorough": 1500}
DECIDING = ["oscillation_columns_judged", "oscillation_irf_columns_judged", "pfid_columns_judged", "artifact_matrices_judged", "shapes_judged",
            "mon:doas.calculate_matrix", "mon:pfid.calculate_matrix", "mon:artifact.calculate_matrix", "mon:shape.calculate"]

TWO_PI_C = 2 * np.pi * 0.03


def attach(rec):
    import glotaran.builtin.megacomplexes.coherent_artifact.coherent_artifact_megacomplex as CA
    import glotaran.builtin.megacomplexes.damped_oscillation.damped_oscillation_megacomplex as DO
    import glotaran.builtin.megacomplexes.pfid.pfid_megacomplex as PF
    import glotaran.builtin.megacomplexes.spectral.shape as SH
    import glotaran.builtin.megacomplexes.spectral.spectral_megacomplex as SM
    from vf.instrument import wrap

    wrap(DO.DampedOscillationMegacomplex, "calculate_matrix", rec=rec, key="mon:doas.calculate_matrix")
    wrap(PF.PFIDMegacomplex, "calculate_matrix", rec=rec, key="mon:pfid.calculate_matrix")
    wrap(CA.CoherentArtifactMegacomplex, "calculate_matrix", rec=rec, key="mon:artifact.calculate_matrix")
    wrap(SM.SpectralMegacomplex, "calculate_matrix", rec=rec, key="mon:spectral.calculate_matrix")
    for cls in (SH.SpectralShapeGaussian, SH.SpectralShapeSkewedGaussian):
        wrap(cls, "calculate", rec=rec, key="mon:shape.calculate")


# ---------------------------------------------------------------- model building
def irf_spec(case):
    kind = case["kind"]
    if kind == "none":
        return None
    single = kind in ("gaussian", "spectral-gaussian")
    irf = {"type": kind}
    irf["center"] = "c0" if single else [f"c{i}" for i in range(case["ncent"])]
    irf["width"] = "w0" if single else [f"w{i}" for i in range(case["nwid"])]
    if case["scales"]:
        irf["scale"] = [f"s{i}" for i in range(max(case["ncent"], case["nwid"]))]
    if kind.startswith("spectral"):
        irf["dispersion_center"] = "dc"
        irf["center_dispersion_coefficients"] = [f"cd{i}" for i in range(case["oc"])]
        irf["width_dispersion_coefficients"] = [f"wd{i}" for i in range(case["ow"])]
        irf["model_dispersion_with_wavenumber"] = case["wn"]
    if case["shift"]:
        irf["shift"] = [f"sh{i}" for i in range(len(case["g"]))]
    return irf


def build(case, mc_spec, extra_vals=None, dataset_extra=None):
    from glotaran.model.item import fill_item
    from glotaran.parameter import Parameters
    from vf.gen.simple import all_builtin_model_class

    spec = {"megacomplex": {"m": mc_spec}, "dataset": {"d": {"megacomplex": ["m"], **(dataset_extra or {})}}}
    irf = irf_spec(case)
    if irf:
        spec["irf"] = {"i": irf}
        spec["dataset"]["d"]["irf"] = "i"
    model = all_builtin_model_class()(**spec)
    vals = dict(case["vals"])
    vals.update(extra_vals or {})
    params = Parameters.from_list([[k, float(v)] for k, v in vals.items()])
    dm = fill_item(model.dataset["d"], model, params)
    return dm


def gen_irf_case(rng, allow_none=True, regime=None):
    case = c05.gen_case(rng, focus="moderate")
    if allow_none and rng.integers(3) == 0:
        case["kind"] = "none"
        case["shift"] = False
    w = 10.0 ** rng.uniform(-3, np.log10(5.0), 3) if (regime or rng.integers(2)) else 10.0 ** rng.uniform(-1.2, -0.3, 3)
    for i in range(3):
        case["vals"][f"w{i}"] = float(w[i])
    w0 = case["vals"]["w0"]
    c0 = case["vals"]["c0"]
    for i in range(5):
        case["vals"][f"sh{i}"] = float(rng.uniform(-3, 3) * w0)
    for i in range(3):
        case["vals"][f"cd{i}"] = float(rng.uniform(-1, 1) * 0.5 * w0)
        case["vals"][f"wd{i}"] = float(rng.uniform(-1, 1) * 0.05 * min(w))
    n = 40
    t = np.sort(np.concatenate([c0 + w0 * rng.uniform(-9, 12, n // 2), c0 + rng.uniform(0, 1, n // 2) * rng.choice([3 * w0, 10.0, 2.0])]))
    t = np.unique(np.round(t, 9))
    if case["kind"] == "none":
        t = np.unique(np.round(np.sort(rng.uniform(0, 1, n) ** 1.5 * rng.choice([2.0, 10.0, 0.5])), 9))
    case["t"] = t.tolist()
    return case


def freq_limit(t):
    d = np.abs(np.diff(np.asarray(t)))
    return 1.0 / (2 * 0.03 * d.min())


def complex_columns(labels, matrix, names):
    return [matrix[..., labels.index(f"{n}_cos")] + 1j * matrix[..., labels.index(f"{n}_sin")] for n in names]


# ---------------------------------------------------------------- oscillations
def run_oscillation(rng, rec, pfid=False):
    case = gen_irf_case(rng, allow_none=not pfid)
    nosc = int(rng.integers(1, 4))
    t = np.asarray(case["t"])
    lim = freq_limit(t)
    names = [f"o{j}" for j in rng.permutation(nosc)]
    extra = {}
    gam, nu = [], []
    w0 = case["vals"]["w0"]
    for j in range(nosc):
        numax = min(2000.0, 0.95 * lim / TWO_PI_C)
        v = float(rng.uniform(0, numax)) if rng.integers(6) else 0.0
        # damping: moderate; a share probes large damping x width (regime of known finding F16)
        g_ = float(10.0 ** rng.uniform(-2, 1.2))
        if rng.integers(5) == 0:
            g_ = float(rng.uniform(2.0, 8.0) / w0)
        if pfid:
            g_ = -g_
        gam.append(g_)
        nu.append(v)
        extra[f"f{j}"] = v
        extra[f"g{j}"] = g_
    if pfid:
        # the probe axis is the global axis (cm^-1); resonance frequencies near it
        for j in range(nosc):
            extra[f"f{j}"] = float(rng.uniform(min(case["g"]) - 30, max(case["g"]) + 30))
        nu = [extra[f"f{j}"] for j in range(nosc)]
    mc = {"type": "pfid" if pfid else "damped-oscillation", "labels": names, "frequencies": [f"f{j}" for j in range(nosc)], "rates": [f"g{j}" for j in range(nosc)]}
    ctx = dict(case, oscillations={"labels": names, "nu": nu, "gamma": gam}, pfid=pfid)
    g = np.asarray(case["g"])
    if pfid:
        dmax = max(abs(gv - f) for gv in g for f in nu) * TWO_PI_C
        if dmax >= lim:
            pass  # PFID has no aliasing guard
    try:
        dm = build(case, mc, extra)
        labels, matrix = dm.megacomplex[0].calculate_matrix(dm, g, t)
    except Exception as e:  # noqa
        if case["kind"] != "none" and any((c05.oracle_index_parameters(case, i)[1] <= 0).any() for i in range(len(g))):
            rec.skip("non-positive effective width (generator)")
            return None, case
        rec.violation(f"{'pfid' if pfid else 'doas'}:raises:{type(e).__name__}", ctx, f"{type(e).__name__}: {str(e)[:200]}")
        return None, case
    matrix = np.asarray(matrix)
    labels = list(labels)
    want_labels = {f"{n}_cos" for n in names} | {f"{n}_sin" for n in names}
    if set(labels) != want_labels or matrix.shape[-1] != 2 * nosc:
        rec.violation("labels", ctx, f"{labels}")
        return None, case
    cols = complex_columns(labels, matrix, names)
    nontrivial = False
    if case["kind"] == "none":
        for j, n in enumerate(names):
            k = gam[j] + 1j * TWO_PI_C * nu[j]
            ref = np.exp(-k * t)
            rec.count("oscillation_columns_judged")
            tol = 64 * I.EPS * (1 + np.abs(k * t)) * np.abs(ref) + 1e-300
            dev = np.abs(cols[j] - ref)
            rec.slack("oscillation_no_irf", float((dev / tol).max()))
            if (~(dev <= tol)).any():  # NaN-aware
                i = int(np.argmax(dev / tol))
                # does the column hold another oscillation's quadrature? (label / order mix-up)
                other = ""
                for j2, n2 in enumerate(names):
                    k2 = gam[j2] + 1j * TWO_PI_C * nu[j2]
                    r2 = np.exp(-k2 * t)
                    for nm, arr in ((f"{n2}_cos", r2.real), (f"{n2}_sin", r2.imag)):
                        for part, parr in (("cos", cols[j].real), ("sin", cols[j].imag)):
                            if (n2, nm.split("_")[1]) != (n, part) and np.allclose(parr, arr, rtol=1e-12, atol=1e-14) and np.abs(arr).max() > 1e-6:
                                other = f"; column {n}_{part} holds the profile of {nm}"
                rec.violation(f"doas-no-irf:{'mislabelled' if other else 'value'}:{'multi' if nosc > 1 else 'single'}", ctx,
                              f"{n} (nu {nu[j]:.4g}, gamma {gam[j]:.4g}) at t={t[i]:.5g}: {cols[j][i]!r} vs exp(-(gamma+i omega)t) = {ref[i]!r}{other}")
                return None, case
            nontrivial = nontrivial or np.linalg.norm(ref) > 1e-6
        return nontrivial, case
    # with IRF
    idxdep = c05.is_index_dependent(case) or pfid
    if (matrix.ndim == 3) != idxdep:
        rec.violation("index-dependence", ctx, f"ndim {matrix.ndim}, expected index dependent = {idxdep}")
        return None, case
    if any((c05.oracle_index_parameters(case, i)[1] <= 0).any() for i in range(len(g))):
        rec.skip("non-positive effective width (generator)")
        return None, case
    # reference per index, oscillation
    refs, impls, conds = [], [], []
    for i in range(len(g) if idxdep else 1):
        c, w, sc = c05.oracle_index_parameters(case, i)
        for j, n in enumerate(names):
            om = TWO_PI_C * ((g[i] - nu[j]) if pfid else nu[j])
            k = gam[j] + 1j * om
            ref = np.zeros(len(t), dtype=complex)
            cn = np.ones(len(t))
            for cg, wg, sg in zip(c, w, sc):
                tau = t - cg
                if pfid:
                    # anti-causal: mirror time; conv_anti(k, tau) = conv(-k, -tau)
                    f = I.conv_fast(-k, -tau, wg)
                    bad = ~np.isfinite(f)
                    f[bad] = [I.conv_mp(-k, -x, wg) for x in tau[bad]]
                else:
                    f = I.conv_fast(k, tau, wg)
                    bad = ~np.isfinite(f)
                    f[bad] = [I.conv_mp(k, x, wg) for x in tau[bad]]
                ref += sg * f
                cn = np.maximum(cn, I.cond(k, tau, wg))
            refs.append(ref)
            conds.append(cn)
            impls.append((cols[j][i] if idxdep else cols[j]))
    R, M_, Cn = np.array(refs), np.array(impls), np.array(conds)
    which = "pfid" if pfid else "doas-irf"
    rec.count("pfid_columns_judged" if pfid else "oscillation_irf_columns_judged", len(refs))
    # per entry: Re z of the erfc argument (max over Gaussians); Re z > 1 is where the textbook form
    # exp(..) * (1 + erf(x)) starts to cancel (known finding F16); the constant is estimated outside it
    Z = np.zeros(R.shape)
    NAIVE = np.zeros(R.shape, dtype=complex)
    PRE = np.zeros(R.shape, dtype=bool)
    for r_i in range(R.shape[0]):
        ii, jj = divmod(r_i, nosc)
        c, w, sc = c05.oracle_index_parameters(case, ii)
        om = TWO_PI_C * ((g[ii] - nu[jj]) if pfid else nu[jj])
        k = gam[jj] + 1j * om
        zz = np.full(len(t), -np.inf)
        tot = np.zeros(len(t), dtype=complex)
        for cg, wg, sg in zip(c, w, sc):
            tau = t - cg
            z = np.real((-k * wg * wg + tau) / (wg * np.sqrt(2))) if pfid else np.real((k * wg * wg - tau) / (wg * np.sqrt(2)))
            zz = np.maximum(zz, z)
            nv = naive_formula(k, tau, wg, pfid)
            window = (tau < 5 * wg) if pfid else (tau > -5 * wg)
            tot += np.where(window, nv, 0.0) * sg * (-1.0 if pfid else 1.0)
        Z[r_i] = zz
        NAIVE[r_i] = tot / sc.sum()
        PRE[r_i] = (t - c.min()) < -5 * w.max() if not pfid else (t - c.max()) > 5 * w.max()
    # non-finite entries: the textbook formula overflows in erf of a complex argument with a large imaginary part
    # (fast oscillation x broad IRF, omega * sigma >~ 10) - same known finding F16 when the bug model reproduces it
    nonfin = ~np.isfinite(M_)
    if nonfin.any():
        f16 = "F16" if (~np.isfinite(NAIVE[nonfin])).all() else None
        wi = tuple(np.argwhere(nonfin)[0])
        ii, jj = divmod(wi[0], nosc)
        w_ = c05.oracle_index_parameters(case, ii)[1]
        rec.violation(f"{'F16:' if f16 else ''}{which}:non-finite", ctx,
                      f"index {ii}, oscillation {names[jj]} (nu {nu[jj]:.4g}, gamma {gam[jj]:.4g}, width {w_[0]:.4g}): non-finite matrix entry where the convolution is {R[wi]!r}", f16)
        return None, case
    R = np.where(np.isfinite(R), R, 0.0)
    safe = Z < 0.5
    if not (safe & (np.abs(R) > 1e-3 * np.abs(R).max())).any():
        # the whole model lies in the cancellation regime
        with np.errstate(all="ignore"):
            nmax = np.nanmax(np.abs(np.where(np.isfinite(NAIVE), NAIVE, 0.0)))
            close = (~np.isfinite(NAIVE) & ~np.isfinite(M_)) | (np.abs(M_ - NAIVE) <= 1e-9 * np.abs(NAIVE) + 1e-12 * nmax + 1e-300)
        cref = 2.0 * (-1.0 if pfid else 1.0)
        ex = R * cref / np.array([c05.oracle_index_parameters(case, r // nosc)[2].sum() for r in range(R.shape[0])])[:, None]
        tol0 = 64 * I.EPS * Cn * (np.abs(ex) + 1e-3 * np.abs(ex).max()) * 4 + 1e-300
        if not (np.abs(M_ - ex) <= tol0).all():
            f16 = "F16" if close.all() else None
            rec.violation(f"{'F16:' if f16 else ''}{which}:cancellation-regime:whole-model", ctx, "every significant entry lies where exp(..)*(1+erf(x)) cancels; values differ from the convolution", f16)
        return None, case
    masked = np.where(safe, np.abs(R), 0.0)
    big = np.unravel_index(np.argmax(masked), R.shape)
    cconst = float(np.real(M_[big] * np.conj(R[big])) / np.abs(R[big]) ** 2)
    if abs(cconst) < 1e-6:
        rec.violation(f"{which}:zero-constant", ctx, f"largest reference entry {R[big]!r} (outside the cancellation regime) corresponds to {M_[big]!r}")
        return None, case
    tol = 64 * I.EPS * Cn * (np.abs(R) + 1e-3 * np.abs(R).max(axis=1, keepdims=True)) * abs(cconst) * 16 + 1e-300
    # "vanishing before the pulse": beyond 5 widths on the dark side any value below 6e-7 c is accepted
    scsum = max(c05.oracle_index_parameters(case, 0)[2].sum(), 1.0)
    tol = np.where(PRE, np.maximum(tol, 6e-7 * abs(cconst) * scsum), tol)
    dev = np.abs(M_ - cconst * R)
    sl = np.where(np.isfinite(dev), dev / tol, np.inf)
    rec.slack(which, float(np.where((Z < 1.0) & np.isfinite(sl), sl, 0.0).max()))
    if sl.max() > 1.0:
        order_ = np.argsort(sl, axis=None)[::-1][:6]
        for flat in order_:
            wi = np.unravel_index(flat, sl.shape)
            if sl[wi] <= 1.0:
                break
            ii, jj = divmod(wi[0], nosc)
            c, w, sc = c05.oracle_index_parameters(case, ii)
            om = TWO_PI_C * ((g[ii] - nu[jj]) if pfid else nu[jj])
            k = gam[jj] + 1j * om
            exact = sum(sg * (I.conv_mp(-k, -(t[wi[1]] - cg), wg) if pfid else I.conv_mp(k, t[wi[1]] - cg, wg)) for cg, wg, sg in zip(c, w, sc))
            if abs(M_[wi] - cconst * exact) <= tol[wi]:
                continue  # the fast reference was off, mpmath agrees with the implementation
            tau0 = t[wi[1]] - c[0]
            finding = None
            mech = "value"
            if Z[wi] > 1.0:
                mech = "cancellation-regime"
                with np.errstate(all="ignore"):
                    row = np.where(np.isfinite(NAIVE[wi[0]]), NAIVE[wi[0]], 0.0)
                    if (not np.isfinite(NAIVE[wi]) and not np.isfinite(M_[wi])) or abs(M_[wi] - NAIVE[wi]) <= 1e-9 * abs(NAIVE[wi]) + 1e-12 * np.abs(row).max() + 1e-300:
                        finding = "F16"
            rec.violation(f"{'F16:' if finding else ''}{which}:{mech}:{'shift' if case['shift'] else 'noshift'}", ctx,
                          f"index {ii}, oscillation {names[jj]} (nu {nu[jj]:.4g}, gamma {gam[jj]:.4g}, width {w[0]:.4g}), t - centre_eff = {tau0:.5g}: "
                          f"{M_[wi]!r} vs c x reference = {cconst * exact!r} (c = {cconst:.6g}, slack {sl[wi]:.3g}, Re z = {Z[wi]:.3g})", finding)
            return None, case
    nontrivial = bool((np.linalg.norm(R, axis=1) > 1e-6).any() and (np.asarray(t) > case["vals"]["c0"]).sum() > 3)
    return nontrivial, case


def naive_formula(k, tau, s, pfid):
    from scipy.special import erf

    with np.errstate(all="ignore"):
        if pfid:
            return np.exp((-tau + 0.5 * k * s * s) * k) * (1 + erf((tau - k * s * s) / (-np.sqrt(2) * s)))
        return np.exp((-tau + 0.5 * k * s * s) * k) * (1 + erf((tau - k * s * s) / (np.sqrt(2) * s)))


# ---------------------------------------------------------------- coherent artifact
def run_artifact(rng, rec):
    case = gen_irf_case(rng, allow_none=False)
    order = int(rng.integers(1, 4))
    own = bool(rng.integers(2))
    mc = {"type": "coherent-artifact", "order": order}
    extra = {}
    if own:
        mc["width"] = "aw"
        extra["aw"] = float(10.0 ** rng.uniform(-2, 0.5))
    ctx = dict(case, artifact={"order": order, "own_width": extra.get("aw")})
    g, t = np.asarray(case["g"]), np.asarray(case["t"])
    try:
        dm = build(case, mc, extra)
        labels, matrix = dm.megacomplex[0].calculate_matrix(dm, g, t)
    except Exception as e:  # noqa
        rec.violation(f"artifact:raises:{type(e).__name__}", ctx, f"{type(e).__name__}: {str(e)[:200]}")
        return None, case
    matrix = np.asarray(matrix)
    idxdep = c05.is_index_dependent(case)
    rec.count("artifact_matrices_judged")
    if matrix.shape[-1] != order or (matrix.ndim == 3) != idxdep:
        rec.violation("artifact:shape", ctx, f"{matrix.shape} for order {order}")
        return None, case
    for i in range(len(g) if idxdep else 1):
        c, w, sc = c05.oracle_index_parameters(case, i)
        cc, ww = float(c[0]), (extra["aw"] if own else float(w[0]))
        if ww <= 0:
            rec.skip("non-positive width")
            return None, case
        def derivs(u):
            gss = np.exp(-0.5 * u * u)
            return [gss, -gss * u / ww, gss * (u * u - 1) / (ww * ww)][:order]

        u = (t - cc) / ww
        ref = derivs(u)
        # conditioning: t - centre is a difference of two rounded inputs: du = 4 eps (|t| + |centre|) / width
        du = 4 * I.EPS * (np.abs(t) + abs(cc)) / ww
        up, um = derivs(u + du), derivs(u - du)
        M = matrix[i] if idxdep else matrix
        for o in range(order):
            scale = np.abs(ref[o]).max() + 1e-300
            tol = np.maximum(np.abs(up[o] - ref[o]), np.abs(um[o] - ref[o])) * 4 + 64 * I.EPS * (1 + u * u) * (np.abs(ref[o]) + 1e-3 * scale) + 1e-300
            # rounding of the natural expanded polynomial (c^2 - w^2 - 2ct + t^2) / w^4 resp. (c - t) / w^2
            tol = tol + 16 * I.EPS * ref[0] * (cc * cc + 2 * np.abs(cc * t) + t * t + ww * ww) / ww ** (2 * o) / (ww * ww) * (o > 0)
            dev = np.abs(M[:, o] - ref[o])
            rec.slack("artifact", float((dev / tol).max()))
            if (~(dev <= tol)).any():  # NaN-aware
                k = int(np.argmax(dev / tol))
                rec.violation(f"artifact:order{o + 1}:{'own-width' if own else 'irf-width'}:{'shift' if case['shift'] else 'noshift'}", ctx,
                              f"index {i}: derivative {o} at t={t[k]:.5g}: {M[k, o]!r} vs {ref[o][k]!r} (centre_eff {cc:.5g}, width {ww:.4g})")
                return None, case
    return True, case


# ---------------------------------------------------------------- spectral shapes
def run_shapes(rng, rec):
    from glotaran.model.item import fill_item
    from glotaran.parameter import Parameters
    from vf.gen.simple import all_builtin_model_class

    n = int(rng.integers(1, 4))
    shapes, vals, specs = {}, {}, {}
    comps = [f"s{j}" for j in rng.permutation(n)]
    for j, cname in enumerate(comps):
        kind = str(rng.choice(["gaussian", "skewed-gaussian", "skewed-gaussian", "one", "zero"]))
        amp = bool(rng.integers(2))
        x0 = float(rng.uniform(400, 700))
        fw = float(10.0 ** rng.uniform(0.3, 2.2))
        b = float(rng.choice([0.0, 1e-12, -1e-12, 1e-9, -1e-9, 0.99e-8, 1.01e-8, -1.01e-8, 1e-7, 1e-5, -1e-5, 1e-3, 0.1, -0.1, 0.5, -0.7, 1.0, -1.0, 2.0, -3.0, 3.0]))
        sp = {"type": kind}
        if kind in ("gaussian", "skewed-gaussian"):
            sp["location"], sp["width"] = f"x0_{j}", f"fw_{j}"
            vals[f"x0_{j}"], vals[f"fw_{j}"] = x0, fw
            if amp:
                sp["amplitude"] = f"a_{j}"
                vals[f"a_{j}"] = float(rng.uniform(0.2, 30))
        if kind == "skewed-gaussian":
            sp["skewness"] = f"b_{j}"
            vals[f"b_{j}"] = b
        shapes[cname] = f"sh{j}"
        specs[f"sh{j}"] = sp
    inverted = bool(rng.integers(4) == 0)
    scale = float(rng.choice([1.0, 1.0, 1e7, 0.5]))
    if inverted and scale == 1.0:
        scale = 1e7
    axis = np.sort(rng.uniform(380, 720, 30))
    # probe points: locations, half-maximum points
    if not inverted and scale == 1.0:
        extra_pts = []
        for j in range(n):
            if f"x0_{j}" in vals:
                x0, fw = vals[f"x0_{j}"], vals[f"fw_{j}"]
                b = vals.get(f"b_{j}", 0.0)
                extra_pts += [x0, x0 + fw / 2, x0 - fw / 2]
                if abs(b) > 1e-8:
                    extra_pts += [x0 + fw * (np.exp(b) - 1) / (2 * b), x0 + fw * (np.exp(-b) - 1) / (2 * b), x0 - fw / (2 * b), x0 - fw / (2 * b) * (1 + 1e-9), x0 - fw / (2 * b) * (1 - 1e-9)]
        axis = np.unique(np.concatenate([axis, [p for p in extra_pts if np.isfinite(p) and 0 < p < 5000]]))
    spec = {"megacomplex": {"m": {"type": "spectral", "shape": shapes}}, "shape": specs,
            "dataset": {"d": {"megacomplex": ["m"], "spectral_axis_inverted": inverted, "spectral_axis_scale": scale}}}
    ctx = {"shapes": specs, "vals": vals, "compartments": comps, "inverted": inverted, "scale": scale, "axis": axis.tolist()}
    try:
        model = all_builtin_model_class()(**spec)
        params = Parameters.from_list([[k, float(v)] for k, v in vals.items()] or [["dummy", 1.0]])
        dm = fill_item(model.dataset["d"], model, params)
        labels, matrix = dm.megacomplex[0].calculate_matrix(dm, np.array([0.0]), axis)
    except Exception as e:  # noqa
        rec.violation(f"shape:raises:{type(e).__name__}", ctx, f"{type(e).__name__}: {str(e)[:200]}")
        return None, ctx
    labels = list(labels)
    x = scale / axis if inverted else axis * scale
    if inverted or scale != 1.0:
        # parameters are in the transformed unit: relocate them onto the transformed axis so that the shape is non-trivial
        pass
    ln2 = np.log(2.0)
    for j, cname in enumerate(comps):
        sp = specs[f"sh{j}"]
        col = np.asarray(matrix)[:, labels.index(cname)]
        rec.count("shapes_judged")
        if sp["type"] == "one":
            ref = np.ones(len(x))
        elif sp["type"] == "zero":
            ref = np.zeros(len(x))
        else:
            x0, fw = vals[f"x0_{j}"], vals[f"fw_{j}"]
            A = vals.get(f"a_{j}", 1.0)
            b = vals.get(f"b_{j}", 0.0) if sp["type"] == "skewed-gaussian" else 0.0
            u = (x - x0) / fw
            gauss = A * np.exp(-ln2 * (2 * u) ** 2)
            if sp["type"] == "gaussian" or b == 0.0:
                ref = gauss
                tol = 64 * I.EPS * (1 + (2 * u) ** 2 * 4) * np.abs(ref) + 1e-300
            else:
                th = 1 + 2 * b * u
                with np.errstate(all="ignore"):
                    import mpmath as mp

                    mp.mp.dps = 40
                    # theta = 1 + 2 b u is formed in 40 digits as well (in float64 it loses eps / |b u| for tiny b)
                    thm = [1 + 2 * mp.mpf(b) * mp.mpf(float(uu)) for uu in u]
                    ref = np.array([float(A * mp.exp(-mp.log(2) * (mp.log(v) / mp.mpf(b)) ** 2)) if v > 0 else 0.0 for v in thm])
                # log(1 + 2 b u): conditioning 1 / (theta |log theta|) * ... ; continuity: |f_b - f_0| <= C |b|
                cond_ = 1 + 2 * ln2 * np.abs(np.log(np.where(th > 0, th, 1.0))) / (b * b) * (1.0 / np.maximum(np.abs(np.log(np.where(th > 0, th, 1.0))), 1e-300)) * (np.abs(2 * b * u) / np.where(th > 0, th, 1.0) + 1)
                tol = 64 * I.EPS * np.minimum(cond_, 1e12) * (np.abs(ref) + 1e-6 * A) + 1e-300
                if abs(b) <= 1.001e-8:
                    # below the switch the statement demands continuity in b -> 0: within C |b| of the Gaussian (the
                    # conditioning of the literal log(1 + 2bu)/b formula, eps/|b|, is NOT a licence here)
                    tol = 50 * abs(b) * A + 1e-7 * A + 64 * I.EPS * (1 + (2 * u) ** 2 * 4) * np.abs(ref)
                elif abs(b) <= 1e-6:
                    # just above it either the exact skewed formula (literal evaluation: relative error ~ eps |u| / |b|) ...
                    tol = np.maximum(64 * I.EPS * (1 + 4 * ln2 * np.abs(u) / (np.where(th > 0, th, 1.0) * abs(b))) * (np.abs(ref) + 1e-6 * A), 50 * abs(b) * A) + 1e-300
            if not inverted and scale == 1.0:
                # structural identities at the probe points
                at = lambda p: col[int(np.argmin(np.abs(axis - p)))] if np.abs(axis - p).min() == 0 else None  # noqa: E731
                v0 = at(x0)
                if v0 is not None and abs(v0 - A) > 1e-12 * A:
                    rec.violation(f"shape:{sp['type']}:amplitude-at-location", ctx, f"{cname}: value at the location {v0!r} != amplitude {A!r}")
                    return None, ctx
                if sp["type"] == "gaussian" or abs(b) <= 1e-8:
                    for p in (x0 + fw / 2, x0 - fw / 2):
                        v = at(p)
                        if v is not None and abs(v - A / 2) > 1e-9 * A and abs(b) == 0:
                            rec.violation(f"shape:{sp['type']}:half-maximum", ctx, f"{cname}: value at x0 +- FWHM/2 is {v!r}, not amplitude/2 = {A / 2!r}")
                            return None, ctx
                else:
                    for p in (x0 + fw * (np.exp(b) - 1) / (2 * b), x0 + fw * (np.exp(-b) - 1) / (2 * b)):
                        v = at(p)
                        if v is not None and abs(v - A / 2) > 1e-6 * A * max(1.0, 1e-9 / abs(b) ** 2):
                            rec.violation(f"shape:{sp['type']}:half-maximum", ctx, f"{cname}: value at the documented half-maximum point {p!r} is {v!r}, not {A / 2!r} (b = {b})")
                            return None, ctx
        dev = np.abs(col - ref)
        if sp["type"] in ("one", "zero"):
            tol = np.zeros(len(x))
        rec.slack(f"shape:{sp['type']}", float((dev / (tol + 1e-300)).max()) if sp["type"] not in ("one", "zero") else 0.0)
        if (~(dev <= tol)).any():  # NaN-aware
            k = int(np.argmax(dev - tol))
            rec.violation(f"shape:{sp['type']}:value:{'near-zero-skew' if abs(vals.get(f'b_{j}', 1)) <= 1e-6 else 'general'}:{'inverted' if inverted else 'scaled' if scale != 1 else 'plain'}", ctx,
                          f"{cname} at x={x[k]!r}: {col[k]!r} vs documented formula {ref[k]!r} (parameters {[(q, vals[q]) for q in vals if q.endswith('_' + str(j))]})")
            return None, ctx
    return True, ctx


# ---------------------------------------------------------------- shards
def plan(tier, seed):
    n = {"quick": 16, "thorough": 32}[tier]
    q = {"quick": 1, "thorough": 12}[tier]
    return [{"shard": i, "nosc": 60 * q, "npfid": 30 * q, "nart": 40 * q, "nshape": 120 * q} for i in range(n)]


def run_shard(spec, rec):
    attach(rec)
    rng = rng_for(spec)
    for i in range(spec["nosc"]):
        nt, case = run_oscillation(rng, rec)
        rec.case(("doas", case["kind"], case["shift"], case["oc"], case["ncent"], case["nwid"], i % 7), bool(nt), sample=None,
                 features=[f"doas:irf={case['kind']}", f"shift={case['shift']}"])
    for i in range(spec["npfid"]):
        nt, case = run_oscillation(rng, rec, pfid=True)
        rec.case(("pfid", case["kind"], case["shift"], case["oc"], i % 7), bool(nt), features=[f"pfid:irf={case['kind']}"])
    for i in range(spec["nart"]):
        nt, case = run_artifact(rng, rec)
        rec.case(("artifact", case["kind"], case["shift"], case["oc"], i % 5), bool(nt), features=[f"artifact:irf={case['kind']}"])
    for i in range(spec["nshape"]):
        nt, ctx = run_shapes(rng, rec)
        kinds = tuple(sorted(s["type"] for s in ctx["shapes"].values()))
        rec.case(("shape", kinds, ctx["inverted"], ctx["scale"] != 1.0, i % 11), bool(nt), sample=ctx if i == 0 else None, features=[f"shape:{k}" for k in kinds])


def replay(case, rec):
    rec.note("C07 cases are regenerated by seed: ./check C07 --seed N")
