"""C11 - parameter transformations, bounds and fixed parameters are respected.

Monitors: icontract postconditions on Parameters.set_from_label_and_value_arrays and
Parameter.set_value_from_optimization / get_value_and_bounds_for_optimization; recorder on
Optimizer.objective_function capturing x, the penalty and the LIVE real-space Parameters.
Oracle: harness-side transformation (log / exp), declared bounds and flags from the case,
finite-difference columns reconstructed from scipy's own recorded Jacobian evaluations.
"""
from __future__ import annotations

import math

import numpy as np

from vf.core import rng_for, time_limit, CaseTimeout
from vf.gen import schemes as S
from vf.props import c02
from vf.ref import objective as O

LEVEL = "exploration"
RULE = (
    "(A) transformation round trips on generated parameter sets: flat / nested labels, any mix of free, fixed, bounded, one-"
    "sided, non-negative, expression parameters, values on / next to bounds, exactly 1 for non-negative ones, magnitudes "
    "1e-12..1e12: optimiser vector -> set back == identity (1e-9 relative), free labels == vary & no expression, bounds arrays == "
    "(log of) declared bounds.  (B) real optimisations (TRF, Dogbox, unbounded LM; harness schemes whose parameters get bounds, "
    "start values on bounds, fixed and expression parameters): at EVERY recorded objective evaluation the live parameters satisfy "
    "min <= value <= max (exact; 4 ulp for log-transformed), non-negative > 0, fixed bit-identical, expression parameters absent "
    "from the vector with unchanged expression text, x[j] is the (log of the) value of free_parameter_labels[j]; the same on every "
    "parameter_history row; Jacobian column j equals the finite difference reconstructed from scipy's own evaluation that "
    "perturbed free_parameter_labels[j], and matches no other column better; covariance_matrix == pinv(J^T J) of that Jacobian "
    "in label order and each free parameter's standard_error == rmse * sqrt(cov[j, j]) of ITS column (mapped out of log space "
    "for non-negative ones).  Non-trivial: >= 1 active bound or non-negative "
    "parameter and >= 3 evaluations; distinct = (method, parameter-option signature)."
)
ASSUMPTIONS = [
    "a parameter started exactly on its bound may read 4 ulp outside after exp(log(v)) (rounding of the documented transformation)",
    "the documented guard value 1 -> 1 + 1e-10 for non-negative parameters is within the 1e-9 round-trip tolerance",
]
MIN_NONTRIVIAL = {"quick": 60, "thorough": 400}
DECIDING = ["standard_errors_checked", "roundtrips", "contract:set_from_label_and_value_arrays", "contract:set_value_from_optimization", "evaluations_checked",
            "history_rows_checked", "jacobian_columns_checked"]
METHODS = ["TrustRegionReflection", "Dogbox", "Levenberg-Marquardt"]


def sexp(v):
    try:
        return math.exp(v)
    except OverflowError:
        return math.inf


def ulps(a, b):
    return abs(a - b) / np.spacing(max(abs(a), abs(b), 5e-324))


# ---------------------------------------------------------------- monitors
def attach(rec, log):
    from glotaran.optimization.optimizer import Optimizer
    from glotaran.parameter import Parameter, Parameters
    from vf.instrument import ensure, wrap

    def post_set(self, labels, values):
        rec.count("contract:set_from_label_and_value_arrays")
        for l, v in zip(labels, values):
            p = self.get(l)
            want = sexp(v) if p.non_negative else float(v)
            if not (p.value == want or abs(p.value - want) <= 1e-12 * abs(want)):
                rec.violation("set-value-wrong", {"label": l}, f"{l}: value {p.value!r} after setting optimiser value {v!r} (non_negative={p.non_negative})")
        return True

    ensure(Parameters, "set_from_label_and_value_arrays", post_set)

    def post_one(self, value):
        rec.count("contract:set_value_from_optimization")
        want = sexp(value) if self.non_negative else float(value)
        if not (self.value == want or abs(self.value - want) <= 1e-12 * abs(want)):
            rec.violation("set-value-wrong", {"label": self.label}, f"{self.label}: {self.value!r} != {want!r}")
        return True

    ensure(Parameter, "set_value_from_optimization", post_one)

    def post_get(self, result):
        rec.count("contract:get_value_and_bounds_for_optimization")
        v, lo, hi = result
        if self.non_negative:
            ok = (not math.isfinite(self.value) or abs(sexp(v) - self.value) <= 1e-9 * abs(self.value)) and \
                 (lo == self.minimum if not math.isfinite(self.minimum) else (self.minimum <= 0 or abs(sexp(lo) - self.minimum) <= 1e-9 * self.minimum)) and \
                 (hi == self.maximum if not math.isfinite(self.maximum) else (self.maximum <= 0 or abs(sexp(hi) - self.maximum) <= 1e-9 * self.maximum))
        else:
            ok = (v == self.value or (v != v and self.value != self.value)) and lo == self.minimum and hi == self.maximum
        if not ok:
            rec.violation("optimiser-value-or-bounds-wrong", {"label": self.label},
                          f"{self.label}: ({self.value}, {self.minimum}, {self.maximum}, non_negative={self.non_negative}) -> {result}")
        return True

    ensure(Parameter, "get_value_and_bounds_for_optimization", post_get)

    def after_obj(a, k, out, exc, tok):
        self = a[0]
        live = {p.label: float(p.value) for p in self._parameters.all()}
        exprs = {p.label: p.expression for p in self._parameters.all()}
        log.append({"x": np.array(a[1], dtype=float, copy=True), "penalty": None if exc is not None else np.array(out, copy=True),
                    "live": live, "exprs": exprs, "free": list(self._free_parameter_labels)})

    wrap(Optimizer, "objective_function", after=after_obj, rec=rec, key="mon:objective_function")


# ---------------------------------------------------------------- (A) round trips
def gen_parameter_set(rng):
    from glotaran.parameter import Parameter, Parameters

    n = int(rng.integers(2, 10))
    ps = {}
    spec = []
    for i in range(n):
        label = f"p{i}" if rng.integers(2) else f"{rng.choice(['rates', 'irf', 'a.b'])}.{rng.choice(['k', 'c'])}{i}"
        kind = str(rng.choice(["free", "fixed", "bounded", "lower", "upper", "nonneg", "nonneg_bounded", "expr", "nonneg_fixed"]))
        mag = 10.0 ** float(rng.integers(-12, 13))
        v = float(rng.uniform(0.1, 9.9)) * mag * (1 if kind.startswith("nonneg") or rng.integers(2) else -1)
        kw = {"label": label, "value": v}
        if kind == "fixed":
            kw["vary"] = False
        elif kind == "nonneg_fixed":
            kw["vary"] = False
            kw["non_negative"] = True
        elif kind in ("bounded", "nonneg_bounded"):
            w = abs(v) * float(rng.choice([0.0, 1e-12, 0.5]))
            kw["minimum"], kw["maximum"] = v - (w if rng.integers(2) else 0.0), v + w + abs(v) * 0.1
            if kind == "nonneg_bounded":
                kw["non_negative"] = True
                kw["minimum"] = max(kw["minimum"], abs(v) * 0.5)
        elif kind == "lower":
            kw["minimum"] = v if rng.integers(2) else v - abs(v)
        elif kind == "upper":
            kw["maximum"] = v if rng.integers(2) else v + abs(v)
        elif kind == "nonneg":
            kw["non_negative"] = True
            if rng.integers(4) == 0:
                kw["value"] = 1.0
        elif kind == "expr" and ps:
            other = list(ps)[int(rng.integers(len(ps)))]
            kw = {"label": label, "expression": f"${other} * 2"}
        spec.append(dict(kw, kind=kind))
        ps[label] = Parameter(**kw)
    return Parameters(ps), spec


def check_roundtrip(rng, rec):
    p, spec = gen_parameter_set(rng)
    rec.count("roundtrips")
    before = {q.label: float(q.value) for q in p.all()}
    other = None
    if rng.integers(2):
        # a second set - a copy moved elsewhere, as a backup or another start would be - is built LATER and stays alive
        # while the first one makes its round trips: every set evaluates its expressions against its own values
        other = p.copy()
        ol, ox, _, _ = other.get_label_value_and_bounds_arrays(exclude_non_vary=True)
        if len(ol):
            other.set_from_label_and_value_arrays(ol, ox + 0.3 * (np.abs(ox) + 1.0))
        rec.count("roundtrips_with_a_later_set_alive")
    labels, x, lo, hi = p.get_label_value_and_bounds_arrays(exclude_non_vary=True)
    want_free = [s["label"] for s in spec if s.get("vary", True) is not False and "expression" not in s]
    ctx = {"spec": spec}
    if sorted(labels) != sorted(want_free):
        rec.violation("free-labels", ctx, f"{labels} != parameters with vary and without expression {want_free}")
        return spec
    for l, xv, a, b in zip(labels, x, lo, hi):
        q = p.get(l)
        if q.non_negative:
            exp_lo = math.log(q.minimum) if math.isfinite(q.minimum) and q.minimum > 0 else q.minimum
            exp_hi = math.log(q.maximum) if math.isfinite(q.maximum) and q.maximum > 0 else q.maximum
            okb = (a == exp_lo or abs(a - exp_lo) <= 1e-9 * max(1.0, abs(exp_lo))) and (b == exp_hi or abs(b - exp_hi) <= 1e-9 * max(1.0, abs(exp_hi)))
            okv = abs(math.exp(xv) - q.value) <= 1e-9 * abs(q.value)
        else:
            okb = a == q.minimum and b == q.maximum
            okv = xv == q.value
        if not okb:
            rec.violation("bounds-array", ctx, f"{l}: bounds ({a}, {b}) for declared ({q.minimum}, {q.maximum}), non_negative={q.non_negative}")
        if not okv:
            rec.violation("value-array", ctx, f"{l}: optimiser value {xv} for {q.value}, non_negative={q.non_negative}")
    p.set_from_label_and_value_arrays(labels, x)
    after = {q.label: float(q.value) for q in p.all()}
    for l in before:
        a, b = before[l], after[l]
        if not (a == b or abs(a - b) <= 1e-9 * abs(a) or (a != a and b != b)):
            rec.violation("roundtrip-not-identity", ctx, f"{l}: {a!r} -> {b!r}")
    # the same with ALL labels (what a parameter history row holds) and through a ParameterHistory: fixed parameters,
    # also log-transformed ones, keep their value
    from glotaran.parameter import ParameterHistory

    labels2, x2, _, _ = p.get_label_value_and_bounds_arrays(exclude_non_vary=False)
    hist = ParameterHistory()
    hist.append(p)
    p.set_from_label_and_value_arrays(labels2, x2)
    after2 = {q.label: float(q.value) for q in p.all()}
    rec.count("roundtrips_all_labels")
    for l in before:
        a, b = before[l], after2[l]
        if not (a == b or abs(a - b) <= 1e-9 * abs(a) or (a != a and b != b)):
            kind = next((sp["kind"] for sp in spec if sp["label"] == l), "?")
            rec.violation(f"roundtrip-all-labels-not-identity:{kind}", ctx, f"{l}: {a!r} -> {b!r} after get_label_value_and_bounds_arrays(exclude_non_vary=False) / set_from_label_and_value_arrays")
            return spec
    if len(labels):
        p.set_from_label_and_value_arrays(labels, x + 0.01 * (np.abs(x) + 1.0))
        hist.append(p)
    p.set_from_history(hist, 0)
    after3 = {q.label: float(q.value) for q in p.all()}
    rec.count("roundtrips_history")
    for l in before:
        a, b = before[l], after3[l]
        if not (a == b or abs(a - b) <= 1e-9 * abs(a) or (a != a and b != b)):
            kind = next((sp["kind"] for sp in spec if sp["label"] == l), "?")
            rec.violation(f"history-restore-not-identity:{kind}", ctx, f"{l}: {a!r} -> {b!r} after ParameterHistory.append / set_from_history(0)")
            return spec
    # a constraint released on the SAME object: the expression is removed, the parameter becomes free with a new value
    exprs = [sp["label"] for sp in spec if sp["kind"] == "expr" and "expression" in sp]
    if exprs:
        l = exprs[0]
        q = p.get(l)
        newv = float(before[l]) * 1.37 + 0.5 if before[l] == before[l] else 1.5
        q.expression = None
        q.vary = True
        q.value = newv
        labels3, x3, _, _ = p.get_label_value_and_bounds_arrays(exclude_non_vary=True)
        rec.count("released_expressions_checked")
        if l not in labels3:
            rec.violation("released-expression:not-free", ctx, f"{l}: expression removed and vary=True, but the optimiser vector has {labels3}")
            return spec
        if not (p.get(l).value == newv):
            rec.violation("released-expression:value-overwritten", ctx, f"{l}: value set to {newv!r} after removing the expression, reads {p.get(l).value!r} after building the optimiser vector")
            return spec
        p.set_from_label_and_value_arrays(labels3, x3)
        got = float(p.get(l).value)
        if not (got == newv or abs(got - newv) <= 1e-9 * abs(newv)):
            rec.violation("released-expression:roundtrip", ctx, f"{l}: {newv!r} -> {got!r} through the optimiser vector after its expression was removed")
    del other
    return spec


def check_spec_roundtrip(rng, rec):
    """(A') parameter sets written as a yml / list specification (default-option blocks, per-entry overrides, nested groups;
    generator and expectation of C16): what reaches the optimiser is exactly what the SPECIFICATION declares free, with the
    declared bounds; fixed and expression entries stay out."""
    from glotaran.io import load_parameters
    from vf.props import c16

    text, expected, is_list = c16.gen_yml(rng)
    ctx = {"yml": text, "expected": expected}
    if any(e.get("non_negative") and (e.get("value", 1.0) <= 0 or e.get("maximum", 1.0) <= 0 or e.get("value", 1.0) > e.get("maximum", math.inf)) for e in expected) \
            or any(e.get("minimum", -math.inf) > e.get("maximum", math.inf) for e in expected):
        rec.skip("generated specification is not a valid parameter set (non-negative with non-positive value / empty box)")
        return
    try:
        p = load_parameters(text, format_name="yml_str")
    except Exception as e:  # noqa
        rec.skip(f"specification not loadable ({type(e).__name__}): judged by C16")
        return
    rec.count("specification_sets_checked")
    want_free = [e["label"] for e in expected if e.get("vary", True) is not False and "expression" not in e]
    try:
        labels, x, lo, hi = p.get_label_value_and_bounds_arrays(exclude_non_vary=True)
    except Exception as e:  # noqa
        rec.skip(f"optimiser vector not available ({type(e).__name__})")
        return
    if sorted(labels) != sorted(want_free):
        rec.violation("spec:free-labels", ctx, f"optimiser receives {sorted(labels)}, the specification declares free {sorted(want_free)}")
        return
    exp = {e["label"]: e for e in expected}
    for l, xv, a, b in zip(labels, x, lo, hi):
        e = exp[l]
        mn, mx = e.get("minimum", -math.inf), e.get("maximum", math.inf)
        if e.get("non_negative"):
            if not e["value"] > 0:
                continue
            mn = math.log(mn) if math.isfinite(mn) and mn > 0 else (-math.inf if mn <= 0 else mn)
            mx = math.log(mx) if math.isfinite(mx) and mx > 0 else mx
            val = math.log(e["value"]) if e["value"] != 1 else math.log(1 + 1e-10)
        else:
            val = e["value"]
        okb = all(u == v or abs(u - v) <= 1e-9 * max(1.0, abs(v)) for u, v in ((a, mn), (b, mx)))
        if not okb:
            rec.violation("spec:bounds-array", ctx, f"{l}: optimiser bounds ({a}, {b}), the specification declares ({e.get('minimum')}, {e.get('maximum')}), non_negative={e.get('non_negative', False)}")
            return
        if not (xv == val or abs(xv - val) <= 1e-9 * max(1e-300, abs(val))):
            rec.violation("spec:value-array", ctx, f"{l}: optimiser value {xv}, the specification declares {e['value']} (non_negative={e.get('non_negative', False)})")
            return


# ---------------------------------------------------------------- (B) optimisations
def decorate_parameters(case, rng, method):
    """Give the free parameters of a scheme case bounds / flags / expressions."""
    P = case["parameters"]
    rate_labels = [l for l in P if l.startswith("k.")]
    for l in list(P):
        p = P[l]
        p.pop("min", None)
        p.pop("max", None)
        if p.get("vary") is False:
            continue
        r = int(rng.integers(6))
        if method == "Levenberg-Marquardt":
            if r == 0 and not l.startswith("k."):
                p["vary"] = False
            continue
        v = p["value"]
        if r == 0:
            p["min"], p["max"] = v, v * 1.5 + 0.1  # start on the lower bound
        elif r == 1:
            p["min"], p["max"] = v - abs(v) * 0.02, v + abs(v) * 0.02  # tight box
        elif r == 2:
            p["max"] = v  # start on the upper bound
        elif r == 3 and not l.startswith("k."):
            p["vary"] = False
    if len(rate_labels) >= 3 and rng.integers(2):
        l = rate_labels[-1]
        P[l] = {"expr": f"${rate_labels[0]} * {float(P[l]['value'] / P[rate_labels[0]]['value'])!r}"}
    for l in rate_labels:
        if "expr" not in P[l] and P[l].get("min", 1) <= 0:
            P[l]["non_negative"] = False
    return case


def check_evaluations(case, log, result, rec):
    P = case["parameters"]
    free = O.free_labels(case)
    nontrivial_bound = False
    for ev in log:
        rec.count("evaluations_checked")
        if sorted(ev["free"]) != sorted(free):
            rec.violation("free-labels", case, f"optimiser vector labels {ev['free']} != {free}")
            return False
        for j, l in enumerate(ev["free"]):
            p = P[l]
            v = ev["live"][l]
            want = sexp(ev["x"][j]) if p.get("non_negative") else float(ev["x"][j])
            if not (v == want or abs(v - want) <= 1e-12 * abs(want) or (v != v and want != want)):
                rec.violation("x-label-mismatch", case, f"x[{j}]={ev['x'][j]!r} is labelled {l} but the live value of {l} is {v!r}")
            lo, hi = p.get("min", -math.inf), p.get("max", math.inf)
            slackulps = 4 if p.get("non_negative") else 0
            if (v < lo and ulps(v, lo) > slackulps) or (v > hi and ulps(v, hi) > slackulps):
                rec.violation(f"bound-violated:{case['method']}", case, f"{l}={v!r} outside [{lo}, {hi}] at a recorded evaluation")
            if p.get("non_negative") and not v > 0:
                # F19: exp underflows to exactly 0.0 when the optimiser proposes x < log(5e-324)
                f19 = "F19" if (v == 0.0 and ev["x"][j] < -744.0) else None
                rec.violation(f"{'F19:' if f19 else ''}non-negative-not-positive", case, f"{l}={v!r} at optimiser value {ev['x'][j]!r}", f19)
            if math.isfinite(lo) or math.isfinite(hi) or p.get("non_negative"):
                nontrivial_bound = True
        for l, p in P.items():
            if p.get("vary") is False and not p.get("expr"):
                if ev["live"][l] != float(p["value"]):
                    rec.violation("fixed-parameter-moved", case, f"{l}: {p['value']!r} -> {ev['live'][l]!r}")
            if p.get("expr"):
                if l in ev["free"]:
                    rec.violation("expression-parameter-in-vector", case, l)
                if ev["exprs"][l] != p["expr"]:
                    rec.violation("expression-changed", case, f"{l}: {p['expr']!r} -> {ev['exprs'][l]!r}")
    return nontrivial_bound


def check_history(case, result, rec):
    P = case["parameters"]
    hist = result.parameter_history
    labels = list(hist.parameter_labels)
    if labels[0] != "iteration" or labels[1:] != list(P):
        rec.violation("history-labels", case, f"{labels} != ['iteration'] + {list(P)}")
        return
    for row in hist.parameters:
        rec.count("history_rows_checked")
        for l, raw in zip(labels[1:], row[1:]):
            p = P[l]
            v = sexp(raw) if p.get("non_negative") else float(raw)
            lo, hi = p.get("min", -math.inf), p.get("max", math.inf)
            if p.get("expr"):
                continue
            if p.get("vary") is False:
                if not (v == p["value"] or abs(v - p["value"]) <= 1e-9 * abs(p["value"])):
                    rec.violation("history:fixed-parameter-moved", case, f"{l}: {p['value']!r} vs history {v!r}")
                continue
            if v < lo * (1 - 1e-9 * np.sign(lo)) - 1e-300 or v > hi * (1 + 1e-9 * np.sign(hi)) + 1e-300:
                rec.violation("history:bound-violated", case, f"{l}={v!r} outside [{lo}, {hi}] in parameter_history")
            if p.get("non_negative") and not v > 0:
                f19 = "F19" if (v == 0.0 and raw < -744.0) else None
                rec.violation(f"{'F19:' if f19 else ''}history:non-negative-not-positive", case, f"{l}={v!r} (history value {raw!r})", f19)
    # result parameters
    for q in result.optimized_parameters.all():
        p = P[q.label]
        lo, hi = p.get("min", -math.inf), p.get("max", math.inf)
        if not p.get("expr") and p.get("vary", True) is not False:
            sl = 4 if p.get("non_negative") else 0
            if (q.value < lo and ulps(q.value, lo) > sl) or (q.value > hi and ulps(q.value, hi) > sl):
                rec.violation("result:bound-violated", case, f"{q.label}={q.value!r} outside [{lo}, {hi}] in the result")


def check_jacobian(case, log, result, rec):
    """Column j of the reported Jacobian == FD from the evaluation that perturbed free_parameter_labels[j]."""
    J = np.asarray(result.jacobian, dtype=float)
    labels = list(result.free_parameter_labels)
    used = [ev["free"] for ev in log if ev["penalty"] is not None]
    if used and labels != used[-1]:
        rec.violation("result-labels-order", case, f"Result.free_parameter_labels {labels} != the order of the optimiser vector {used[-1]} (Jacobian / covariance columns follow the vector)")
        return
    P = case["parameters"]
    if any(P[l].get("non_negative") and not result.optimized_parameters.get(l).value > 0 for l in labels):
        rec.skip("non-negative parameter underflowed to 0 in the result (F19): no Jacobian check")
        return
    xopt = np.array([math.log(result.optimized_parameters.get(l).value) if P[l].get("non_negative") else result.optimized_parameters.get(l).value for l in labels])
    base = [ev for ev in log if ev["penalty"] is not None and ev["x"].shape == xopt.shape and np.allclose(ev["x"], xopt, rtol=1e-12, atol=1e-300)]
    if not base or J.shape[1] != len(labels):
        rec.skip("no recorded evaluation at the optimum (Jacobian check)")
        return
    f0 = base[0]["penalty"]
    xopt = base[0]["x"]  # the very vector scipy used (log/exp round trip differs by an ulp)
    colscale = np.linalg.norm(J, axis=0)
    # scipy's own finite-difference evaluations: x differs from the optimum in exactly one coordinate by a
    # step of ~sqrt(eps) relative; per coordinate the smallest such step is the Jacobian evaluation
    cand = {}
    for ev in log:
        if ev["penalty"] is None or ev["x"].shape != xopt.shape:
            continue
        d = ev["x"] - xopt
        nz = np.flatnonzero(d != 0)
        if len(nz) != 1:
            continue
        j = int(nz[0])
        if not 1e-10 * max(1.0, abs(xopt[j])) <= abs(d[j]) <= 1e-6 * max(1.0, abs(xopt[j])):
            continue
        if j not in cand or abs(d[j]) < abs(cand[j][0]):
            cand[j] = (d[j], ev)
    # every single-coordinate perturbation of the optimum (any step size): used to tell whether the objective is
    # differentiable at finite-difference resolution at all (far-off LM iterates make the projection ill-conditioned)
    single = {}
    for ev in log:
        if ev["penalty"] is None or ev["x"].shape != xopt.shape:
            continue
        d = ev["x"] - xopt
        nz = np.flatnonzero(d != 0)
        if len(nz) == 1 and abs(d[nz[0]]) <= 1e-2 * max(1.0, abs(xopt[nz[0]])):
            single.setdefault(int(nz[0]), []).append((ev["penalty"] - f0) / d[nz[0]])
    for j, (h, ev) in sorted(cand.items()):
        quot = single.get(j, [])
        if len(quot) >= 2:
            big = max(np.linalg.norm(q) for q in quot)
            spread = max(np.linalg.norm(a - b) for a in quot for b in quot)
            if spread > 0.2 * big:
                rec.skip("finite differences of the objective at different steps disagree (objective noise-dominated at the optimum)")
                continue
        # which live parameter moved?
        moved = [l for l in labels if ev["live"][l] != base[0]["live"][l]]
        if moved != [labels[j]]:
            rec.violation("jacobian:perturbed-label", case, f"perturbing x[{j}] moved parameters {moved}, free_parameter_labels[{j}] = {labels[j]}")
            continue
        fd = (ev["penalty"] - f0) / h
        nfd = np.linalg.norm(fd)
        if max(nfd, colscale[j]) < 1e-6 * max(colscale.max(), 1e-300) or nfd < 1e-8:
            continue  # the parameter has (numerically) no influence: finite-difference noise only
        # rounding noise of a finite difference of the (ill-conditioned) variable-projection objective
        noise = 1e4 * np.finfo(float).eps * np.linalg.norm(f0) / abs(h)
        if noise > 0.1 * max(nfd, colscale[j]):
            rec.skip("Jacobian column below finite-difference noise")
            continue
        err = [np.linalg.norm(fd - J[:, k]) / max(nfd, colscale[k]) for k in range(J.shape[1])]
        rec.count("jacobian_columns_checked")
        rec.slack("jacobian_fd", err[j] / 2e-2)
        best = int(np.argmin(err))
        if err[j] > 2e-2 and best != j and err[best] < 1e-3:
            rec.violation("jacobian:column-order", case, f"FD w.r.t. {labels[j]} matches column {best} ({labels[best]}), not column {j} (errors {err})")
        elif err[j] > 0.2:
            # lm reports J scaled/approximated differently only within a few percent
            rec.violation("jacobian:column-values", case, f"column {j} ({labels[j]}) deviates {err[j]:.2e} from the finite difference of the objective")


def check_errors(case, result, rec):
    """Covariance columns and standard errors follow free_parameter_labels: cov == pinv(J^T J) of the reported Jacobian,
    standard_error(label j) == rmse * sqrt(cov[j, j]) (mapped out of log space for non-negative parameters), and the
    other parameters carry no standard error of a free one by position."""
    J = np.asarray(result.jacobian, dtype=float)
    labels = list(result.free_parameter_labels)
    cov = np.asarray(result.covariance_matrix, dtype=float) if result.covariance_matrix is not None else None
    if cov is None or J.ndim != 2 or J.shape[1] != len(labels) or not np.isfinite(J).all():
        rec.skip("no covariance / non-finite Jacobian")
        return
    if cov.shape != (len(labels), len(labels)):
        rec.violation("covariance:shape", case, f"covariance {cov.shape} for {len(labels)} free parameters")
        return
    _, sv, vt = np.linalg.svd(J, full_matrices=False)
    # singular values next to the eps cut-off make pinv discontinuous: only judge well-separated spectra
    # (the library drops singular values with sv^2 <= eps, an absolute cut-off)
    if sv.size == 0 or (sv ** 2 < 1e-10 * (sv ** 2).max()).any() or (sv ** 2 < 1e4 * np.finfo(float).eps).any():
        rec.skip("Jacobian numerically rank deficient: covariance not comparable")
        return
    ref = (vt.T / sv ** 2) @ vt
    rec.count("covariances_checked")
    scale = np.sqrt(np.outer(np.diag(ref), np.diag(ref)))
    if np.abs((cov - ref) / scale).max() > 1e-6:
        # same matrix under a permutation of the labels?
        import itertools as it

        perm = None
        if len(labels) <= 6:
            for p in it.permutations(range(len(labels))):
                if np.abs((cov[np.ix_(p, p)] - ref) / scale).max() <= 1e-6:
                    perm = p
                    break
        rec.violation("covariance:" + ("column-order" if perm else "values"), case, f"covariance_matrix != pinv(J^T J) in free_parameter_labels order (permutation that matches: {perm})")
        return
    rmse = float(result.root_mean_square_error)
    errs = rmse * np.sqrt(np.diag(ref))
    P = case["parameters"]
    expected = {}
    for l, e in zip(labels, errs):
        q = result.optimized_parameters.get(l)
        if P[l].get("non_negative"):
            v = float(q.value)
            if not v > 0:
                continue
            expected[l] = v * (math.exp(e) - 1.0) if e < abs(math.log(v)) else abs(v)
        else:
            expected[l] = e
    for l, want in expected.items():
        got = result.optimized_parameters.get(l).standard_error
        rec.count("standard_errors_checked")
        ok = got is not None and np.isfinite(got) and abs(got - want) <= 1e-6 * max(abs(want), 1e-300)
        if not ok:
            other = [m for m, w in expected.items() if m != l and got is not None and np.isfinite(got) and abs(got - w) <= 1e-6 * max(abs(w), 1e-300)]
            rec.violation("standard-error:" + ("belongs-to-other-label" if other else "value"), case,
                          f"standard_error of {l} is {got!r}, rmse*sqrt(cov[j,j]) for its column gives {want!r}" + (f" (it is the value belonging to {other})" if other else ""))
            return


def run_case(jc, rec, log):
    from glotaran.optimization.optimize import optimize

    del log[:]
    try:
        scheme = S.build_scheme(jc, maximum_number_function_evaluations=jc.get("max_nfev", 6), optimization_method=jc["method"])
        with time_limit(40):
            result = optimize(scheme, verbose=False, raise_exception=True)
    except (Exception, CaseTimeout) as e:  # noqa
        import traceback

        frames = traceback.extract_tb(e.__traceback__)
        if any(f.filename.endswith("scipy/optimize/_nnls.py") for f in frames) or "infs or NaNs" in str(e) or "not finite" in str(e) or "SVD did not" in str(e) or isinstance(e, CaseTimeout):
            rec.skip("optimisation left the finite domain / scipy nnls (F13)")
        elif "infeasible" in str(e):
            rec.violation(f"raises:x0-infeasible:{jc['method']}", jc, f"{type(e).__name__}: {str(e)[:200]}")
        else:
            rec.violation(f"raises:{type(e).__name__}:{jc['method']}", jc, f"{type(e).__name__}: {str(e)[:300]}")
        return None, False
    nb = check_evaluations(jc, log, result, rec)
    check_history(jc, result, rec)
    if result.success and result.jacobian is not None:
        check_errors(jc, result, rec)
        check_jacobian(jc, log, result, rec)
    return result, nb


def plan(tier, seed):
    n = {"quick": 16, "thorough": 32}[tier]
    return [{"shard": i, "nrt": {"quick": 400, "thorough": 6000}[tier], "nopt": {"quick": 90, "thorough": 1200}[tier]} for i in range(n)]


def run_shard(spec, rec):
    log = []
    attach(rec, log)
    rng = rng_for(spec)
    S.model_class()
    for i in range(spec["nrt"]):
        if i % 4 == 0:
            check_spec_roundtrip(rng, rec)
        sp = check_roundtrip(rng, rec)
        kinds = tuple(sorted({s["kind"] for s in sp}))
        rec.case(("rt", kinds), len(kinds) >= 2 and any(k in kinds for k in ("nonneg", "bounded", "nonneg_bounded", "lower", "upper")),
                 sample={"roundtrip_spec": sp} if i == 0 else None, features=["roundtrip"])
    for i in range(spec["nopt"]):
        method = METHODS[int(rng.integers(3))]
        case = c02.fix_groups(S.gen_case(rng, features={"nnls": False, "full_model": False}))
        case["method"] = method
        case["max_nfev"] = int(rng.integers(3, 9))
        case = decorate_parameters(case, rng, method)
        jc = S.jsonable_case(case)
        result, nb = run_case(jc, rec, log)
        sig = tuple(sorted((("nn" if p.get("non_negative") else "") + ("lo" if "min" in p else "") + ("hi" if "max" in p else "") + ("fx" if p.get("vary") is False else "") + ("ex" if p.get("expr") else "")) for p in jc["parameters"].values()))
        rec.case((method, sig), bool(result is not None and nb and len(log) >= 3), sample=jc if i == 0 else None, features=[f"method={method}"])


def replay(case, rec):
    log = []
    attach(rec, log)
    S.model_class()
    if "roundtrip_spec" in case or "spec" in case or "label" in case:
        rec.note("round-trip cases are regenerated from the seed; rerun the shard")
        return
    run_case(case, rec, log)
