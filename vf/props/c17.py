"""C17 - models, schemes, datasets and results survive persistence unchanged.

Monitors: recorders on save_result / load_result / dataclass_helpers.asdict / fromdict /
relative_posix_path; audit hook listing the files written (evidence); objective recorder of C02.
Oracle: specification equality up to list/tuple + bit-equal objective of the reloaded model;
field-by-field equality of reloaded results (parameters, histories, statistics, datasets), all
stored paths relative and the folder movable; netCDF bit-equality; ASCII values to the written
precision with both axes in the right orientation.
"""
from __future__ import annotations

import contextlib
import io
import os
import re
import shutil
import warnings
from pathlib import Path

import numpy as np
import xarray as xr

from vf.core import rng_for, time_limit, CaseTimeout
from vf.gen import schemes as S
from vf.props import c02, c20

LEVEL = "exploration"
RULE = (
    "(A) models: generated specifications over every builtin item type (tuple-keyed K-matrices, single-tuple and listed intervals, "
    "nested parameter labels, optional fields unset, several dataset groups, model classes created from more megacomplex types than "
    "used) and harness scheme cases: save_model -> load_model must give an equal as_dict() (up to list/tuple) and a bit-identical "
    "first objective evaluation.  (B) results of real optimisations x SavingOptions {default, minimal, no report} x target {absolute, "
    "relative to a different cwd}: save_result -> move the folder -> chdir elsewhere -> load_result: parameters, histories, statistics, "
    "datasets (values, coords, dtypes) equal, every path in result.yml / scheme.yml relative.  (C) netCDF datasets of random shape, dim "
    "order, coordinates, dtypes: bit-equal.  (D) ASCII time- / wavelength-explicit files for either input dim order incl. square and "
    "1 x N shapes: values to %.10e, axes right.  Non-trivial: model with >= 3 item kinds / result with >= 2 datasets / non-square "
    "data; distinct = (part, feature signature)."
)
ASSUMPTIONS = [
    "fields that are by design not persisted (jacobian, covariance_matrix, cost, additional_penalty) and the loader / source_path attributes are not compared",
    "YAML has no tuples: tuples and lists are identified when specifications are compared",
]
MIN_NONTRIVIAL = {"quick": 80, "thorough": 600}
DECIDING = ["models_roundtripped", "objectives_compared", "results_roundtripped", "netcdf_roundtrips", "ascii_roundtrips", "mon:save_result", "mon:load_result",
            "mon:asdict", "mon:fromdict"]


def attach(rec, log):
    import glotaran.project.dataclass_helpers as DH
    from glotaran.plugin_system import project_io_registration as PIO
    from vf.instrument import wrap

    import glotaran.builtin.io.yml.yml as YML
    import glotaran.io as GIO

    c02.attach(rec, log)
    # the names are bound in several namespaces at import time: wrap them where they are looked up
    wrap(GIO, "save_result", rec=rec, key="mon:save_result")
    wrap(GIO, "load_result", rec=rec, key="mon:load_result")
    wrap(YML, "asdict", rec=rec, key="mon:asdict")
    wrap(YML, "fromdict", rec=rec, key="mon:fromdict")


def norm(o):
    """lists == tuples; numpy scalars -> python"""
    if isinstance(o, dict):
        return {str(k) if not isinstance(k, tuple) else f"({k[0]}, {k[1]})": norm(v) for k, v in o.items()}
    if isinstance(o, (list, tuple)):
        return [norm(v) for v in o]
    if isinstance(o, np.generic):
        return o.item()
    return o


def dict_diff(a, b, path=""):
    if isinstance(a, dict) and isinstance(b, dict):
        out = []
        for k in sorted(set(a) | set(b)):
            if k not in a or k not in b:
                out.append(f"{path}/{k}: only in {'saved' if k in a else 'loaded'}")
            else:
                out += dict_diff(a[k], b[k], f"{path}/{k}")
        return out
    if isinstance(a, list) and isinstance(b, list):
        if len(a) != len(b):
            return [f"{path}: length {len(a)} vs {len(b)}"]
        out = []
        for i, (x, y) in enumerate(zip(a, b)):
            out += dict_diff(x, y, f"{path}[{i}]")
        return out
    if a != b and not (isinstance(a, float) and isinstance(b, float) and a != a and b != b):
        return [f"{path}: {a!r} vs {b!r}"]
    return []


def first_objective(model, params, data, log, scheme_kw=None):
    from glotaran.optimization.optimize import optimize
    from glotaran.project import Scheme

    del log[:]
    with time_limit(60):
        optimize(Scheme(model=model, parameters=params, data=data, maximum_number_function_evaluations=1, add_svd=False, **(scheme_kw or {})), verbose=False, raise_exception=True)
    return log[0]["penalty"]


# ---------------------------------------------------------------- A: models
def model_roundtrip(model, params, data, rec, log, ctx, scratch, tag, scheme_kw=None, wide_class=False):
    from glotaran.io import load_model, save_model

    path = Path(scratch) / "model.yml"
    try:
        save_model(model, path, allow_overwrite=True)
        loaded = load_model(path)
    except Exception as e:  # noqa
        import traceback

        fr = [f for f in traceback.extract_tb(e.__traceback__) if "/glotaran/" in f.filename]
        where = f"{fr[-1].filename.split('/glotaran/')[-1]}:{fr[-1].name}" if fr else "?"
        # F21: the model's class knows more item sections than its megacomplex types need; save_model writes the empty
        # sections, load_model (class from the used types only) rejects them
        f21 = "F21" if (wide_class and isinstance(e, TypeError) and "unexpected keyword argument" in str(e) and where.endswith("load_model")) else None
        rec.violation(f"{'F21:' if f21 else ''}model:{tag}:roundtrip-raises:{type(e).__name__}:{where}", ctx, f"{type(e).__name__}: {str(e)[:200]}", f21)
        return False
    rec.count("models_roundtripped")
    a, b = norm(model.as_dict()), norm(loaded.as_dict())
    # sections that are empty on one side and absent on the other carry no specification
    for d in (a, b):
        for k in [k for k, v in d.items() if v in ({}, [], None)]:
            d.pop(k)
    diff = dict_diff(a, b)
    if diff:
        rec.violation(f"model:{tag}:specification-changed", ctx, "; ".join(diff[:4]))
        return False
    try:
        p0 = first_objective(model, params, data, log, scheme_kw)
    except (Exception, CaseTimeout) as e:  # noqa
        rec.skip(f"original model not evaluable: {type(e).__name__}")
        return True
    try:
        p1 = first_objective(loaded, params, data, log, scheme_kw)
    except (Exception, CaseTimeout) as e:  # noqa
        import traceback

        fr = [f for f in traceback.extract_tb(e.__traceback__) if "/glotaran/" in f.filename]
        where = f"{fr[-1].filename.split('/glotaran/')[-1]}:{fr[-1].name}" if fr else "?"
        rec.violation(f"model:{tag}:reloaded-model-not-evaluable:{type(e).__name__}:{where}", ctx, f"the original evaluates, the reloaded model raises {type(e).__name__}: {str(e)[:200]}")
        return False
    rec.count("objectives_compared")
    if p0.shape != p1.shape or not np.array_equal(p0, p1, equal_nan=True):
        d = float(np.nanmax(np.abs(p0 - p1))) if p0.shape == p1.shape else float("inf")
        rec.violation(f"model:{tag}:objective-changed", ctx, f"first objective evaluation of the reloaded model differs by {d:.3e}")
        return False
    return True


def builtin_model_case(rng):
    spec = c20.gen_spec(rng)
    # interval notations: single tuple / list of tuples / none
    for sect in ("clp_constraints", "clp_relations"):
        for it in spec.get(sect, []):
            r = int(rng.integers(3))
            if r == 0:
                it["interval"] = (1.0, 2.0)
            elif r == 1:
                it["interval"] = [(1.0, 2.0), (3.0, 4.5)]
            else:
                it.pop("interval", None)
    if spec.get("weights") and rng.integers(2):
        spec["weights"][0]["global_interval"] = (490.0, 530.0)
    return spec


def run_builtin_model(rng, rec, log, scratch):
    from glotaran.parameter import Parameter, Parameters

    spec = builtin_model_case(rng)
    ctx = {"spec": c20.json_spec(spec)}
    import copy

    from glotaran.model import Model
    from glotaran.plugin_system.megacomplex_registration import get_megacomplex

    wide_class = bool(rng.integers(8) == 0)
    try:
        if wide_class:
            model = c20.build(spec)  # model class created from ALL builtin megacomplex types (F21)
        else:
            types = sorted({m["type"] for m in spec["megacomplex"].values()})
            model = Model.create_class_from_megacomplexes([get_megacomplex(t) for t in types])(**copy.deepcopy(spec))
    except Exception as e:  # noqa
        rec.skip(f"spec not constructible: {type(e).__name__}")
        return None
    ctx["model_class"] = "all-builtin-megacomplexes" if wide_class else "used-megacomplexes"
    labels = sorted(model.get_parameter_labels())
    params = Parameters({l: Parameter(label=l, value=c20.param_value(l, i), vary=not l.startswith(("j.", "i.dc", "ms.", "gs.", "sh.a"))) for i, l in enumerate(labels)})
    t = np.linspace(-1, 10, 30)
    g = np.array([1.5, 480.0, 520.0])
    data = {d: xr.DataArray(np.random.default_rng(7).standard_normal((t.size, g.size)), coords=[("time", t), ("spectral", g)]).to_dataset(name="data") for d in spec["dataset"]}
    kinds = len({k for k in spec if spec.get(k)})
    iv = "single-tuple-interval" if any(isinstance(it.get("interval"), tuple) for s_ in ("clp_constraints", "clp_relations") for it in spec.get(s_, [])) else "other"
    ok = model_roundtrip(model, params, data, rec, log, ctx, scratch, f"builtin:{iv}", wide_class=wide_class)
    return kinds >= 3


def run_harness_model(rng, rec, log, scratch):
    case = c02.fix_groups(S.gen_case(rng, features={"nnls": False}))
    # make some intervals single tuples (the generator writes both notations as lists)
    jc = S.jsonable_case(case)
    scheme = S.build_scheme(jc)
    ok = model_roundtrip(scheme.model, scheme.parameters, scheme.data, rec, log, jc, scratch, "harness",
                         scheme_kw={"clp_link_tolerance": scheme.clp_link_tolerance, "clp_link_method": scheme.clp_link_method})
    return c02.nontrivial(jc)


# ---------------------------------------------------------------- B: results
PERSISTED_STATS = ["number_of_function_evaluations", "success", "termination_reason", "free_parameter_labels", "chi_square", "degrees_of_freedom", "number_of_clps",
                   "number_of_residuals", "number_of_jacobian_evaluations", "number_of_free_parameters", "optimality", "reduced_chi_square", "root_mean_square_error"]


def params_equal(a, b):
    la, lb = [p.label for p in a.all()], [p.label for p in b.all()]
    if la != lb:
        return f"labels {la} vs {lb}"
    for p, q in zip(a.all(), b.all()):
        for f in ("value", "standard_error", "minimum", "maximum", "vary", "non_negative", "expression"):
            x, y = getattr(p, f), getattr(q, f)
            if isinstance(x, float) and isinstance(y, (float, int)):
                if not (x == y or (x != x and y != y)):
                    return f"{p.label}.{f}: {x!r} vs {y!r}"
            elif x != y:
                return f"{p.label}.{f}: {x!r} vs {y!r}"
    return None


def compare_result(result, loaded, opts, rec, ctx, tag="result"):
    """Parameters, histories, statistics, datasets of a loaded result against the result that was saved."""
    for nm, a, b in (("optimized_parameters", result.optimized_parameters, loaded.optimized_parameters), ("initial_parameters", result.initial_parameters, loaded.initial_parameters)):
        d = params_equal(a, b)
        if d:
            rec.violation(f"{tag}:{nm}-changed", ctx, d)
            return False
    ha, hb = result.parameter_history, loaded.parameter_history
    if list(ha.parameter_labels) != list(hb.parameter_labels) or not np.array_equal(np.asarray(ha.parameters, dtype=float), np.asarray(hb.parameters, dtype=float), equal_nan=True):
        same_shape = np.shape(ha.parameters) == np.shape(hb.parameters)
        d = float(np.nanmax(np.abs(np.asarray(ha.parameters, dtype=float) - np.asarray(hb.parameters, dtype=float)))) if same_shape else float("inf")
        rec.violation(f"{tag}:parameter_history-changed", ctx, f"max abs difference {d:.3e}")
        return False
    oa, ob = result.optimization_history, loaded.optimization_history
    try:
        da_, db_ = oa.data.reset_index(), ob.data.reset_index()
        if list(da_.columns) != list(db_.columns) or not np.allclose(da_.values.astype(float), db_.values.astype(float), rtol=1e-12, equal_nan=True):
            rec.violation(f"{tag}:optimization_history-changed", ctx, "optimization history differs after loading")
    except Exception as e:  # noqa
        rec.note(f"optimization history comparison skipped: {type(e).__name__}")
    for f in PERSISTED_STATS:
        x, y = getattr(result, f), getattr(loaded, f)
        if isinstance(x, float):
            if not (x == y or (x != x and y != y)):
                rec.violation(f"{tag}:statistic-changed:{f}", ctx, f"{f}: {x!r} vs {y!r}")
        elif x != y:
            rec.violation(f"{tag}:statistic-changed:{f}", ctx, f"{f}: {x!r} vs {y!r}")
    for label in result.data:
        if label not in loaded.data:
            rec.violation(f"{tag}:dataset-missing", ctx, label)
            continue
        a, b = result.data[label], loaded.data[label]
        names = set(a.data_vars) if opts.data_filter is None else set(opts.data_filter)
        for v in names:
            if v not in b:
                rec.violation(f"{tag}:dataset-variable-missing", ctx, f"{label}.{v}")
                continue
            if a[v].dims != b[v].dims or a[v].dtype != b[v].dtype or not np.array_equal(a[v].values, b[v].values, equal_nan=a[v].dtype.kind == "f"):
                rec.violation(f"{tag}:dataset-variable-changed:{'dtype' if a[v].dtype != b[v].dtype else 'values'}", ctx, f"{label}.{v}: dims {a[v].dims} vs {b[v].dims}, dtype {a[v].dtype} vs {b[v].dtype}")
        for cname in a.coords:
            if cname in b.coords and any(d in (a[v].dims if v in a else ()) for v in names for d in a.coords[cname].dims):
                ca, cb = a.coords[cname].values, b.coords[cname].values
                same = np.array_equal(ca, cb, equal_nan=True) if ca.dtype.kind == "f" else list(map(str, ca.ravel())) == list(map(str, cb.ravel()))
                if not same:
                    rec.violation(f"{tag}:dataset-coordinate-changed", ctx, f"{label}.{cname}: {ca[:4]} vs {cb[:4]}")
    return True


def sources_inside(loaded, folder, rec, ctx, tag):
    """What a loaded dataset says about where it came from (used for the references of the next save) is the file in the
    folder it was loaded from - not a place it, or the data it was computed from, lived at earlier."""
    root = Path(folder).resolve()
    for label, ds in loaded.data.items():
        sp = ds.attrs.get("source_path")
        rec.count("loaded_source_paths_checked")
        if sp is None:
            continue
        rp = Path(sp).resolve()
        if root not in rp.parents or not rp.exists():
            rec.violation(f"{tag}:loaded-dataset-source-outside-folder", ctx, f"dataset {label!r} loaded from {root} reports source_path {sp!r}")
            return False
    return True


def numeric_parameter_labels(jc):
    """The same case with every parameter label replaced by a numeric-looking one (01, 02, 1.10, ...): labels are text,
    whatever they look like, in every parameter file a result folder holds."""
    import json

    labels = sorted(jc["parameters"], key=len, reverse=True)
    names = ["01", "02", "1.10", "1.1", "007", "3", "4.50", "12", "0.5", "10", "2.0", "6", "08", "9.90", "11", "13", "14", "15", "16", "17", "18", "19"]
    if len(labels) > len(names):
        return jc
    m = dict(zip(labels, names))
    text = json.dumps(jc)
    for old in labels:
        text = text.replace(json.dumps(old), json.dumps("\u0000" + m[old])).replace("$" + old, "$\u0000" + m[old])
    out = json.loads(text.replace("\\u0000", "").replace("\u0000", ""))
    out["features"] = dict(out.get("features", {}), numeric_parameter_labels=True)
    return out


def run_result(rng, rec, log, scratch, idx):
    from glotaran.io import SAVING_OPTIONS_DEFAULT, SAVING_OPTIONS_MINIMAL, SavingOptions, load_result, save_result
    from glotaran.optimization.optimize import optimize

    case = c02.fix_groups(S.gen_case(rng, features={"nnls": False}, label_pool=str(rng.choice(["plain", "dotted", "underscore", "case"]))))
    jc = S.jsonable_case(case)
    opt_name, opts = [("default", SAVING_OPTIONS_DEFAULT), ("minimal", SAVING_OPTIONS_MINIMAL), ("no-report", SavingOptions(report=False)),
                      ("tsv-parameters", SavingOptions(parameter_format="tsv"))][int(rng.integers(4))]
    if rng.integers(3) == 0:
        jc = numeric_parameter_labels(jc)
    target_kind = str(rng.choice(["absolute", "relative", "relative-dotdot", "relative-dot", "relative-via-sibling"]))
    data_from_files = bool(rng.integers(2))
    ctx = dict(jc, saving_options=opt_name, target=target_kind, data_from_files=data_from_files)
    base = Path(scratch) / f"res{idx}"
    if base.exists():
        shutil.rmtree(base)
    (base / "work").mkdir(parents=True)
    (base / "elsewhere").mkdir()
    try:
        scheme0 = S.build_scheme(jc, maximum_number_function_evaluations=3, add_svd=bool(rng.integers(2)))
        if data_from_files:
            # the usual case: the input data were loaded from files and carry the place they came from (source_path)
            from glotaran.io import load_dataset, save_dataset

            (base / "input").mkdir()
            for k, label in enumerate(list(scheme0.data)):
                fn = base / "input" / f"in{k}.nc"
                save_dataset(scheme0.data[label], fn)
                scheme0.data[label] = load_dataset(fn)
            if rng.integers(2):
                # a dataset the model does not use travels along in the scheme (a reference measurement): it is not part
                # of the result, and nothing written into the result folder may point at where it lives
                fn = base / "input" / "unused_reference.nc"
                first = next(iter(scheme0.data.values()))
                save_dataset(first, fn)
                scheme0.data["unused_reference"] = load_dataset(fn)
                ctx["unused_dataset_in_scheme"] = True
                rec.count("schemes_with_an_unused_dataset")
        with time_limit(60):
            result = optimize(scheme0, verbose=False, raise_exception=True)
    except (Exception, CaseTimeout) as e:  # noqa
        rec.skip(f"optimisation raised {type(e).__name__}")
        return None
    old = os.getcwd()
    try:
        os.chdir(base / "work")
        (base / "work" / "sub").mkdir()
        # the same folder named in different ways; what is stored inside it must not depend on how it was named
        target = {"absolute": base / "work" / "out" / "result.yml", "relative": Path("out") / "result.yml",
                  "relative-dotdot": Path("..") / "work" / "out" / "result.yml", "relative-dot": Path(".") / "out" / "result.yml",
                  "relative-via-sibling": Path("sub") / ".." / "out" / "result.yml"}[target_kind]
        try:
            with warnings.catch_warnings():
                warnings.simplefilter("ignore")
                save_result(result, target, saving_options=opts)
        except Exception as e:  # noqa
            import traceback

            fr = [f for f in traceback.extract_tb(e.__traceback__) if "/glotaran/" in f.filename]
            where = f"{fr[-1].filename.split('/glotaran/')[-1]}:{fr[-1].name}" if fr else "?"
            rec.violation(f"result:save-raises:{type(e).__name__}:{where}", ctx, f"{type(e).__name__}: {str(e)[:200]}")
            return None
        out = base / "work" / "out"
        # every stored path relative
        for fname in ("result.yml", "scheme.yml"):
            text = (out / fname).read_text()
            absolute = [m for m in re.findall(r":\s*['\"]?(/[^\s'\"]+)", text)]
            if absolute or str(base) in text:
                rec.violation(f"result:absolute-path-stored:{fname}:{target_kind}", ctx, f"{fname} contains absolute paths: {(absolute or [str(base)])[:2]}")
                return None
            escaping = [m for m in re.findall(r":\s*['\"]?((?:\.\./)[^\s'\"]+)", text)]
            if escaping:
                rec.violation(f"result:reference-leaves-folder:{fname}:{target_kind}", ctx, f"{fname} refers to files outside the result folder: {escaping[:2]}")
                return None
        moved = base / "elsewhere" / "moved"
        shutil.move(str(out), str(moved))
        os.chdir(base / "elsewhere")
        try:
            with warnings.catch_warnings():
                warnings.simplefilter("ignore")
                loaded = load_result(moved / "result.yml")
        except Exception as e:  # noqa
            import traceback

            fr = [f for f in traceback.extract_tb(e.__traceback__) if "/glotaran/" in f.filename]
            where = f"{fr[-1].filename.split('/glotaran/')[-1]}:{fr[-1].name}" if fr else "?"
            rec.violation(f"result:load-after-move-raises:{type(e).__name__}:{where}", ctx, f"{type(e).__name__}: {str(e)[:200]}")
            return None
    finally:
        os.chdir(old)
    rec.count("results_roundtripped")
    if not compare_result(result, loaded, opts, rec, ctx):
        return None
    if not sources_inside(loaded, moved, rec, ctx, "result"):
        return None
    # second generation: the LOADED result saved to another folder must be self-contained there (all references
    # relative to and inside the new folder), also after the first folder is gone
    second = base / "second" / "gen2"
    (base / "second").mkdir()
    try:
        os.chdir(base / "second")
        tgt2 = (second / "result.yml") if rng.integers(2) else Path("gen2") / "result.yml"
        try:
            with warnings.catch_warnings():
                warnings.simplefilter("ignore")
                save_result(loaded, tgt2, saving_options=opts)
        except Exception as e:  # noqa
            rec.violation(f"result2:save-loaded-raises:{type(e).__name__}", ctx, f"saving a loaded result elsewhere: {type(e).__name__}: {str(e)[:200]}")
            return None
        for fname in ("result.yml", "scheme.yml"):
            text = (second / fname).read_text()
            outside = [m for m in re.findall(r":\s*['\"]?((?:/|\.\./)[^\s'\"]+)", text)] + ([str(base)] if str(base) in text else []) + (["moved"] if re.search(r"\bmoved/", text) else [])
            if outside:
                rec.violation(f"result2:reference-outside-folder:{fname}", ctx, f"{fname} of a re-saved loaded result refers outside its folder: {outside[:3]}")
                return None
        shutil.rmtree(moved)
        os.chdir(base)
        try:
            with warnings.catch_warnings():
                warnings.simplefilter("ignore")
                loaded2 = load_result(second / "result.yml")
        except Exception as e:  # noqa
            rec.violation(f"result2:load-raises:{type(e).__name__}", ctx, f"loading the re-saved result after the first folder was removed: {type(e).__name__}: {str(e)[:200]}")
            return None
    finally:
        os.chdir(old)
    rec.count("results_second_generation")
    if not compare_result(result, loaded2, opts, rec, ctx, tag="result2"):
        return None
    if not sources_inside(loaded2, second, rec, ctx, "result2"):
        return None
    # third step: ANOTHER result (same scheme, other data) saved over the same folder with allow_overwrite: loading the
    # same path again must give the new result's datasets, not what was read from that path before
    import copy

    jc3 = copy.deepcopy(jc)
    for d in jc3["datasets"]:
        d["dseed"] = int(d["dseed"]) + 1
    try:
        with time_limit(60):
            result3 = optimize(S.build_scheme(jc3, maximum_number_function_evaluations=3, add_svd=False), verbose=False, raise_exception=True)
    except (Exception, CaseTimeout) as e:  # noqa
        rec.skip(f"overwrite step not applicable: second optimisation raised {type(e).__name__}")
        return len(jc["datasets"]) >= 2
    try:
        # `loaded2` (read from this very folder) is still alive: an allowed overwrite must work all the same
        with warnings.catch_warnings():
            warnings.simplefilter("ignore")
            save_result(result3, second / "result.yml", saving_options=opts, allow_overwrite=True)
            loaded3 = load_result(second / "result.yml")
    except Exception as e:  # noqa
        rec.violation(f"result3-after-overwrite:raises:{type(e).__name__}", ctx, f"saving another result over a folder whose previous content is still loaded (allow_overwrite=True), then loading it: {type(e).__name__}: {str(e)[:200]}")
        return None
    rec.count("results_overwritten_and_reloaded")
    if not compare_result(result3, loaded3, opts, rec, ctx, tag="result3-after-overwrite"):
        return None
    return len(jc["datasets"]) >= 2


# ---------------------------------------------------------------- C, D: datasets
def run_netcdf(rng, rec, scratch):
    from glotaran.io import load_dataset, save_dataset

    nt, ng = int(rng.integers(1, 9)), int(rng.integers(1, 9))
    dims = ("time", "spectral") if rng.integers(2) else ("spectral", "time")
    t = np.sort(rng.uniform(-5, 50, nt))
    g = np.sort(rng.uniform(300, 800, ng)) if rng.integers(2) else np.arange(ng, dtype=np.int64) * 3
    dtype = [np.float64, np.float32, np.int32][int(rng.integers(3))]
    vals = (rng.standard_normal((nt, ng)) * 10.0 ** rng.integers(-300, 300)).astype(dtype) if dtype is np.float64 else (rng.standard_normal((nt, ng)) * 100).astype(dtype)
    da = xr.DataArray(vals, coords=[("time", t), ("spectral", g)]).transpose(*dims)
    ds = da.to_dataset(name="data")
    if rng.integers(2):
        ds["weight"] = xr.DataArray(rng.uniform(0.1, 2, (nt, ng)), coords=[("time", t), ("spectral", g)]).transpose(*dims)
    ds.attrs["note"] = "vf"
    path = Path(scratch) / "data.nc"
    ctx = {"shape": [nt, ng], "dims": list(dims), "dtype": np.dtype(dtype).name, "g_dtype": str(g.dtype)}
    try:
        save_dataset(ds, path, allow_overwrite=True)
        back = load_dataset(path)
    except Exception as e:  # noqa
        rec.violation(f"netcdf:raises:{type(e).__name__}", ctx, f"{type(e).__name__}: {str(e)[:200]}")
        return False
    rec.count("netcdf_roundtrips")
    for v in ds.data_vars:
        if v not in back or back[v].dims != ds[v].dims or back[v].dtype != ds[v].dtype or not np.array_equal(back[v].values, ds[v].values, equal_nan=True):
            rec.violation(f"netcdf:variable-changed:{np.dtype(dtype).name}", ctx, f"{v}: dims {ds[v].dims} -> {back[v].dims if v in back else None}, dtype {ds[v].dtype} -> {back[v].dtype if v in back else None}")
            return False
    for c in ("time", "spectral"):
        if back.coords[c].dtype != ds.coords[c].dtype or not np.array_equal(back.coords[c].values, ds.coords[c].values):
            rec.violation("netcdf:coordinate-changed", ctx, f"{c}: {ds.coords[c].values[:3]} ({ds.coords[c].dtype}) -> {back.coords[c].values[:3]} ({back.coords[c].dtype})")
            return False
    return nt != ng


def run_ascii(rng, rec, scratch):
    from glotaran.builtin.io.ascii.wavelength_time_explicit_file import DataFileType
    from glotaran.io import load_dataset, save_dataset

    nt, ns = [(5, 3), (4, 4), (1, 3), (3, 1), (2, 2), (7, 6), (3, 3)][int(rng.integers(7))]
    order = str(rng.choice(["ts", "st"]))
    fmt = [DataFileType.time_explicit, DataFileType.wavelength_explicit][int(rng.integers(2))]
    t = np.sort(rng.uniform(-1, 10, nt))
    s = np.sort(rng.uniform(400, 700, ns))
    if rng.integers(3) == 0:
        t = np.round(t, 2)
        s = np.round(s, 0)
    vals = rng.standard_normal((nt, ns)) * 10.0 ** rng.integers(-6, 7)
    da = xr.DataArray(vals, coords=[("time", t), ("spectral", s)])
    if order == "st":
        da = da.transpose("spectral", "time")
    path = Path(scratch) / "data.ascii"
    ctx = {"shape": [nt, ns], "input_dims": list(da.dims), "file_format": fmt.name, "time": t.tolist(), "spectral": s.tolist()}
    try:
        with warnings.catch_warnings():
            warnings.simplefilter("ignore")
            save_dataset(da, path, allow_overwrite=True, file_format=fmt)
            back = load_dataset(path).data
    except Exception as e:  # noqa
        rec.violation(f"ascii:raises:{type(e).__name__}:{fmt.name}", ctx, f"{type(e).__name__}: {str(e)[:200]}")
        return False
    rec.count("ascii_roundtrips")
    if set(back.dims) != {"time", "spectral"}:
        rec.violation("ascii:dims", ctx, f"{back.dims}")
        return False
    bt, bs = back.coords["time"].values, back.coords["spectral"].values
    if bt.dtype.kind not in "fiu" or bs.dtype.kind not in "fiu":
        rec.violation(f"ascii:axis-not-numeric:{fmt.name}", ctx, f"axes read back as {bt.dtype} / {bs.dtype}: {list(bt[:2])} / {list(bs[:2])}")
        return False
    if bt.shape != t.shape or bs.shape != s.shape or not np.allclose(bt, t, rtol=1e-10, atol=0) or not np.allclose(bs, s, rtol=1e-10, atol=0):
        rec.violation(f"ascii:axes:{fmt.name}:{order}:{'square' if nt == ns else 'nonsquare'}", ctx, f"time {t.tolist()} -> {bt.tolist()}; spectral {s.tolist()} -> {bs.tolist()}")
        return False
    bv = back.transpose("time", "spectral").values
    if not np.allclose(bv, vals, rtol=1e-10, atol=0):
        wrong_t = nt == ns and np.allclose(bv, vals.T, rtol=1e-10, atol=0)
        rec.violation(f"ascii:values:{fmt.name}:{order}:{'transposed' if wrong_t else 'changed'}", ctx, f"max relative deviation {np.nanmax(np.abs(bv - vals) / np.abs(vals)):.3e}")
        return False
    return nt != ns


# ---------------------------------------------------------------- shards
def plan(tier, seed):
    n = {"quick": 16, "thorough": 32}[tier]
    q = {"quick": 1, "thorough": 10}[tier]
    return [{"shard": i, "nbuiltin": 12 * q, "nharness": 10 * q, "nres": 6 * q, "nnc": 40 * q, "nascii": 40 * q} for i in range(n)]


def run_shard(spec, rec):
    log = []
    attach(rec, log)
    S.model_class()
    rng = rng_for(spec)
    scratch = os.environ.get("VF_SCRATCH", ".")
    for i in range(spec["nbuiltin"]):
        nt = run_builtin_model(rng, rec, log, scratch)
        rec.case(("model-builtin", spec["shard"], i), bool(nt), features=["model:builtin"])
    for i in range(spec["nharness"]):
        nt = run_harness_model(rng, rec, log, scratch)
        rec.case(("model-harness", spec["shard"], i), bool(nt), features=["model:harness"])
    for i in range(spec["nres"]):
        nt = run_result(rng, rec, log, scratch, i)
        rec.case(("result", spec["shard"], i), bool(nt), features=["result"])
    for i in range(spec["nnc"]):
        nt = run_netcdf(rng, rec, scratch)
        rec.case(("netcdf", spec["shard"], i), bool(nt), features=["netcdf"])
    for i in range(spec["nascii"]):
        nt = run_ascii(rng, rec, scratch)
        rec.case(("ascii", spec["shard"], i), bool(nt), sample=None, features=["ascii"])
    rec.samples.append({"parts": "A models (builtin+harness), B results, C netCDF, D ASCII", "shard": spec["shard"]})


def replay(case, rec):
    rec.note("C17 cases are regenerated by seed: ./check C17 --seed N")
