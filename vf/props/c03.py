"""C03 - result datasets decompose the data exactly and on the right coordinates.

Monitor: recorder on OptimizationGroup.create_result_data; the oracle runs on the returned
xarray Datasets (user-visible surface), selecting everything BY COORDINATE LABEL.
Oracle: identities of the statement + the reference residual/clps of vf.ref.objective keyed by
(dataset label, global value, model value).  Data carry unique ids in their low-order digits.
"""
from __future__ import annotations

import numpy as np

from vf import tol as T
from vf.core import rng_for, time_limit, CaseTimeout
from vf.gen import schemes as S
from vf.props import c02
from vf.ref import objective as O

LEVEL = "exploration"
RULE = (
    "The C02 scheme space plus: dataset labels from adversarial pools (prefix: a/ab/b/ba, substring: ds/ds1/1ds/ds12, equal "
    "concatenations: ab+c vs a+bc, case variants, underscores incl. '_baseline'), non-square data, data stored (model, global) "
    "or (global, model), noisy data, linked groups in which some aligned indices hold a single dataset.  Each scheme is "
    "optimised (<= 3 evaluations) and every result dataset is checked by coordinate label: data = fitted + residual, fitted = "
    "scale * matrix @ clp (matrix @ clp @ global_matrix^T for full models), weighted_residual = weight * residual, weight = "
    "the weight in force, residual / clp / matrix == the independent reference at the optimised parameters keyed by (label, "
    "global value, model value), constrained clps exactly 0 and related clps exactly p * source on their intervals, dims / "
    "coords / label order == the dataset's own.  Non-trivial: residual RMS > 1e-3 and non-square data; distinct = feature "
    "signature incl. label pool and layout."
)
ASSUMPTIONS = c02.ASSUMPTIONS + ["xarray label-based selection (.sel) is trusted"]
MIN_NONTRIVIAL = {"quick": 60, "thorough": 400}
DECIDING = ["mon:create_result_data", "datasets_checked", "identities_checked"]


def attach(rec):
    from glotaran.optimization.optimization_group import OptimizationGroup
    from vf.instrument import wrap

    wrap(OptimizationGroup, "create_result_data", rec=rec, key="mon:create_result_data")


def check_result(case, result, rec, jc):
    """-> list of (mech, detail)."""
    bad = []
    data = c02.case_data(case)
    pv_free = {p.label: float(p.value) for p in result.optimized_parameters.all()}
    pv = O.parameter_values(case, pv_free)
    # which way were automatic groups evaluated? decide per group by the reference that matches
    refs = {}
    for g in case["groups"]:
        if not O.group_datasets(case, g):
            continue
        link = case["groups"][g]["link_clp"]
        options = [link] if link is not None else ([True, False] if O.linkable(case, g) else [False])
        cands = []
        for linked in options:
            try:
                cands.append(O.evaluate_group(case, g, pv, data, bool(linked)))
            except Exception as e:  # noqa
                rec.skip(f"oracle: {str(e)[:50]}")
        refs[g] = cands
    for ds in case["datasets"]:
        label = ds["label"]
        if label not in result.data:
            bad.append(("missing-dataset", f"{label} not in result.data (keys {list(result.data)})"))
            continue
        rd = result.data[label]
        rec.count("datasets_checked")
        t, gax = np.asarray(ds["t"], dtype=float), np.asarray(ds["g"], dtype=float)
        D, Wd = data[label]
        # -- coordinates and layout equal the dataset's own
        want_dims = ("time", "spectral") if ds.get("layout", "mg").startswith("mg") else ("spectral", "time")
        if tuple(rd.data.dims) != want_dims:
            bad.append(("layout", f"{label}: data dims {rd.data.dims} != {want_dims}"))
        if not (np.array_equal(rd.coords["time"].values, t) and np.array_equal(rd.coords["spectral"].values, gax)):
            bad.append(("coords", f"{label}: coordinates changed"))
            continue

        def arr(name):
            """variable as (time, spectral) array selected by label"""
            return rd[name].transpose("time", "spectral").values

        if not np.array_equal(arr("data"), D):
            bad.append(("data-changed", f"{label}: result data differ from the input data"))
        rec.count("identities_checked")
        # -- data = fitted + residual
        dev = np.abs(arr("data") - (arr("fitted_data") + arr("residual")))
        if (dev > 4 * np.spacing(np.abs(arr("data")) + np.abs(arr("residual")))).any():
            bad.append(("decomposition", f"{label}: data != fitted_data + residual (max {dev.max():.3e})"))
        # -- weights
        g = ds["group"]
        ok_ref = None
        for ref in refs.get(g, []):
            if not np.isfinite(ref["kappa"]) or ref["kappa"] > 1e8:
                continue
            ok_ref = ok_ref or ref
        if ok_ref is None:
            rec.skip("reference ill-conditioned (kappa > 1e8) or unavailable")
            continue
        # comparisons below are NaN-blind (nan > tol is False): a non-finite entry in a reported variable is judged here
        nonfinite = [v for v in ("fitted_data", "residual", "clp", "matrix", "weighted_residual", "weight") if v in rd and not np.isfinite(rd[v].values).all()]
        if "matrix" in nonfinite:
            rec.skip("model matrix non-finite at the reported parameters (harness model overflow)")
            continue
        if nonfinite:
            bad.append((f"non-finite:{nonfinite[0]}", f"{label}: result variable(s) {nonfinite} contain NaN / inf (finite input data)"))
            continue
        W = ok_ref["weights"][label]
        if W is None:
            if "weight" in rd or "weighted_residual" in rd:
                bad.append(("unexpected-weight", f"{label}: result has weight variables but no weight is in force"))
        else:
            if "weight" not in rd or "weighted_residual" not in rd:
                bad.append(("missing-weight", f"{label}: weight in force but result lacks weight / weighted_residual"))
            else:
                if not np.allclose(arr("weight"), W, rtol=1e-15, atol=0):
                    bad.append(("weight-values", f"{label}: result weight differs from the weight in force (max {np.abs(arr('weight') - W).max():.3e})"))
                wr = arr("weighted_residual")
                d = np.abs(wr - arr("weight") * arr("residual"))
                if (d > 8 * np.spacing(np.abs(wr))).any():
                    bad.append(("weighted-residual", f"{label}: weighted_residual != weight * residual (max {d.max():.3e})"))
        # -- against the reference (either admissible linking choice)
        verdicts = []
        for ref in refs.get(g, []):
            verdicts.append(compare_with_reference(case, ds, rd, ref, pv, W))
        good = [v for v in verdicts if not v]
        if verdicts and not good:
            bad.extend(verdicts[0])
    return bad


def compare_with_reference(case, ds, rd, ref, pv, W):
    bad = []
    label = ds["label"]
    t, gax = np.asarray(ds["t"], dtype=float), np.asarray(ds["g"], dtype=float)
    kap = ref["kappa"]
    scale = pv[ds["scale"]] if ds.get("scale") else 1.0
    nnls = ref.get("nnls")
    if nnls and (min(kap, 1e150) ** 2 >= T.C * 20 or ref.get("f13") or ref.get("huge")):
        return []  # F13 regime: solver answer not decidable here (C01)
    if ds.get("global_megacomplex"):
        full = ref["full"][label]
        M, G = full["M"], full["G"]
        mat = rd["matrix"]
        gm = rd["global_matrix"]
        clp = rd["clp"]
        fitted = np.zeros((len(t), len(gax)))
        for i, gv in enumerate(gax):
            Mi = (mat.sel(spectral=gv) if "spectral" in mat.dims else mat).transpose("time", "clp_label").sel(clp_label=full["labels"]).values
            if not np.allclose(Mi, M[i], rtol=1e-13, atol=1e-300):
                bad.append(("matrix", f"{label}: result matrix at {gv} differs from the megacomplex definition"))
            Gi = gm.sel(spectral=gv).sel(global_clp_label=full["global_labels"]).values
            C = clp.sel(global_clp_label=full["global_labels"], clp_label=full["labels"]).transpose("global_clp_label", "clp_label").values
            fitted[:, i] = Mi @ (C.T @ Gi)
        res = rd["residual"].transpose("time", "spectral").values
        tol = T.lsq_tol(len(t) * len(gax), 10, max(np.abs(res).max(), 1.0), kap)
        fd = rd["fitted_data"].transpose("time", "spectral").values
        if not np.abs(fd - fitted).max() <= tol * 10:
            bad.append(("fitted-fullmodel", f"{label}: fitted_data != matrix @ clp @ global_matrix^T (max {np.abs(fd - fitted).max():.3e})"))
        want = full["residual"]
        if W is not None:
            want = want / W
        if not np.abs(res - want).max() <= tol * 10:
            bad.append(("residual-fullmodel", f"{label}: residual differs from the reference (max {np.abs(res - want).max():.3e})"))
        return bad
    labels = ref["clp_labels"][label]
    # the ORDER of the dataset's labels is the implementation's choice (the statement only fixes that
    # every array uses the dataset's own label order): the label set must be right and matrix and clp
    # must share one clp_label coordinate; everything else is selected by label.
    got_labels = [str(x) for x in rd.coords["clp_label"].values]
    if sorted(got_labels) != sorted(labels):
        bad.append(("clp-label-set", f"{label}: clp_label {got_labels} != dataset's labels {labels}"))
        return bad
    if [str(x) for x in rd["matrix"].coords["clp_label"].values] != [str(x) for x in rd["clp"].coords["clp_label"].values]:
        bad.append(("clp-label-order", f"{label}: matrix and clp use different clp_label orders"))
    _, M = O.dataset_matrix(case, ds, pv, with_dataset_scale=False)
    mat = rd["matrix"]
    clp = rd["clp"]
    for i, gv in enumerate(gax):
        Mi = (mat.sel(spectral=gv) if "spectral" in mat.dims else mat).transpose("time", "clp_label").sel(clp_label=labels).values
        if not np.allclose(Mi, M[i], rtol=1e-13, atol=1e-300):
            bad.append(("matrix", f"{label}: result matrix at {gv} differs from the megacomplex definition (max {np.abs(Mi - M[i]).max():.3e})"))
            break
        c = clp.sel(spectral=gv).sel(clp_label=labels).values
        cref = ref["clps"][(label, i)]
        ctol = T.lsq_tol(len(t), len(labels), max(np.abs(cref).max(), 1e-3), kap) * 10
        if np.abs(c - cref).max() > ctol:
            bad.append(("clp", f"{label}: clp at {gv} = {c.tolist()} but reference {cref.tolist()} (kappa {kap:.1e})"))
            break
        fd = rd["fitted_data"].sel(spectral=gv).values
        want_fd = scale * (Mi @ c)
        # fitted_data is data - residual: it inherits the rounding of |matrix| @ |clp| (large clps cancel)
        mag = float((np.abs(Mi) @ np.abs(c)).max()) * abs(scale) * max(1.0, float(np.max(W)) / max(float(np.min(W)), 1e-300) if W is not None else 1.0)
        # ... and matrix @ clp carries the forward error of the clps (eps * kappa of the solved problem): the residual of a
        # QR solve is accurate, the clps of an ill-conditioned index are not
        rtol = T.lsq_tol(len(t), len(labels), max(mag, np.abs(want_fd).max(), 1.0), min(kap, 1e8)) * 10
        if np.abs(fd - want_fd).max() > rtol:
            bad.append(("fitted", f"{label}: fitted_data at {gv} != dataset_scale * matrix @ clp (max {np.abs(fd - want_fd).max():.3e}, scale {scale})"))
            break
        res = rd["residual"].sel(spectral=gv).values
        rref = ref["residuals"][(label, i)]
        if W is not None:
            rref = rref / W[:, i]
        tol = T.lsq_tol(len(t), len(labels), max(np.abs(rref).max(), 1.0), kap) * 10
        if not np.abs(res - rref).max() <= tol:
            # where did it come from? (unique ids make foreign columns identifiable)
            origin = ""
            for (l2, i2), r2 in ref["residuals"].items():
                if r2.shape == res.shape and np.abs(res - r2).max() <= tol and (l2, i2) != (label, i):
                    origin = f" - it is the residual of ({l2}, index {i2})"
            bad.append(("residual", f"{label}: residual at {gv} differs from the reference by {np.abs(res - rref).max():.3e}{origin}"))
            break
        # exact structural identities
        for con in case.get("constraints", []):
            if con["target"] in labels:
                app = O.inside(con.get("interval"), gv)
                if (con["type"] == "zero" and app) or (con["type"] == "only" and not app):
                    v = float(clp.sel(spectral=gv, clp_label=con["target"]).values)
                    if v != 0.0:
                        bad.append(("constrained-clp-nonzero", f"{label}: clp[{con['target']}] at {gv} = {v!r}, must be exactly 0"))
        for r in case.get("relations", []):
            if r["target"] in labels and r["source"] in labels and O.inside(r.get("interval"), gv):
                constrained = any(
                    cc["target"] == r["target"] for cc in case.get("constraints", [])
                )
                v = float(clp.sel(spectral=gv, clp_label=r["target"]).values)
                s = float(clp.sel(spectral=gv, clp_label=r["source"]).values)
                if not constrained and v != pv[r["parameter"]] * s:
                    bad.append(("related-clp", f"{label}: clp[{r['target']}] at {gv} = {v!r} != {pv[r['parameter']]!r} * {s!r}"))
    return bad


def signature(case):
    f = case["features"]
    layouts = "".join(sorted({d.get("layout", "mg") for d in case["datasets"]}))
    return c02.signature(case) + (f.get("label_pool"), layouts)


def plan(tier, seed):
    n = {"quick": 16, "thorough": 32}[tier]
    return [{"shard": i, "n": {"quick": 45, "thorough": 900}[tier]} for i in range(n)]


POOLS = ["plain", "prefix", "substring", "concat", "case", "underscore", "dotted"]


def run_case(jc, rec):
    from glotaran.optimization.optimize import optimize

    try:
        scheme = S.build_scheme(jc, maximum_number_function_evaluations=3)
        with time_limit(30):
            result = optimize(scheme, verbose=False, raise_exception=True)
    except (Exception, CaseTimeout) as e:  # noqa
        import traceback

        frames = traceback.extract_tb(e.__traceback__)
        in_scipy_nnls = any(f.filename.endswith("scipy/optimize/_nnls.py") for f in frames)
        if in_scipy_nnls:
            rec.skip("scipy NNLS failure inside optimisation (F13, see C01/C02)")
            return None
        last = [f for f in frames if "/glotaran/" in f.filename]
        where = f"{last[-1].filename.split('/glotaran/')[-1]}:{last[-1].name}" if last else "?"
        rec.violation(f"raises:{type(e).__name__}:{where}:pool={jc['features'].get('label_pool')}", jc, f"{type(e).__name__}: {str(e)[:300]}")
        return None
    bad = check_result(jc, result, rec, jc)
    seen = set()
    for mech, detail in bad:
        if mech in seen:
            continue
        seen.add(mech)
        rec.violation(f"{mech}:{c02.mech_tag(jc)}", jc, detail)
    return result


def adversarial_cases():
    """Hand-built linked groups for each label pool in which DIFFERENT sets of datasets share aligned indices: the
    bookkeeping of 'which datasets are stacked at this index' is keyed by dataset labels in the library."""
    out = []
    for pool, names in S.LABEL_POOLS.items():
        if len(names) < 4:
            continue
        for perm in ((0, 1, 2, 3), (2, 3, 0, 1), (3, 0, 1, 2)):
            nm = [names[i] for i in perm]
            # indices 1,2 held by {nm0, nm1}; 3,4 by {nm2, nm3}; 5 by {nm0, nm3}; 6 by all four
            axes = [[1.0, 2.0, 5.0, 6.0], [1.0, 2.0, 6.0], [3.0, 4.0, 6.0], [3.0, 4.0, 5.0, 6.0]]
            ds, id0 = [], 0
            for k, (n, g) in enumerate(zip(nm, axes)):
                t = [0.0, 0.25, 0.5, 1.0, 1.5, 2.5, 4.0, 6.0, 8.0][: 7 + (k % 3)]
                ds.append({"label": n, "group": "g1", "t": t, "g": g, "layout": ["mg", "gm", "mg_f", "gm_f"][k], "megacomplex": ["m1"], "dseed": 100 + k,
                           "id0": id0, "weight": "dataset" if k == 1 else None, "scale": "scale.1" if k == 2 else None, "mc_scale": None})
                id0 += len(t) * len(g)
            out.append(S.jsonable_case({
                "datasets": ds, "megacomplexes": {"m1": {"labels": ["a", "b"], "rates": ["k.1", "k.2"], "disp": None}}, "global_megacomplexes": {},
                "groups": {"g1": {"link_clp": True, "residual_function": "variable_projection"}},
                "parameters": {"k.1": {"value": 1.3}, "k.2": {"value": 0.2}, "scale.1": {"value": 1.7, "vary": False}},
                "link_tolerance": 0.0, "link_method": "nearest", "constraints": [], "relations": [], "penalties": [], "weights": [],
                "features": {"link_clp": True, "label_pool": pool, "adversarial": True, "n_datasets": 4, "axes": "mixed-membership"}}))
    # a single conditionally linear parameter (one matrix column) at several global points, linked and unlinked, with and
    # without index dependence / weights: the one shape for which a column vector is both C- and Fortran-contiguous
    for linked in (False, True):
        for disp in (None, "dsp.1"):
            for weight in (None, "dataset"):
                ds, id0 = [], 0
                for k in range(2):
                    t = [0.0, 0.25, 0.5, 1.0, 1.5, 2.5, 4.0, 6.0, 8.0][: 8 + k]
                    g = [1.0, 2.0, 3.0, 4.0] if k == 0 else [3.0, 4.0, 5.0]
                    ds.append({"label": f"ds{k + 1}", "group": "g1", "t": t, "g": g, "layout": ["mg", "gm_f"][k], "megacomplex": ["m1"], "dseed": 300 + k,
                               "id0": id0, "weight": weight if k == 1 else None, "scale": None, "mc_scale": None})
                    id0 += len(t) * len(g)
                params = {"k.1": {"value": 0.7}}
                if disp:
                    params["dsp.1"] = {"value": 0.03, "vary": False}
                out.append(S.jsonable_case({
                    "datasets": ds, "megacomplexes": {"m1": {"labels": ["a"], "rates": ["k.1"], "disp": disp}}, "global_megacomplexes": {},
                    "groups": {"g1": {"link_clp": linked, "residual_function": "variable_projection"}}, "parameters": params,
                    "link_tolerance": 0.0, "link_method": "nearest", "constraints": [], "relations": [], "penalties": [], "weights": [],
                    "features": {"link_clp": linked, "label_pool": "plain", "adversarial": True, "n_datasets": 2, "axes": "overlap", "single_clp": True}}))
    return out


def run_shard(spec, rec):
    attach(rec)
    rng = rng_for(spec)
    S.model_class()
    if spec["shard"] == 0:
        for jc in adversarial_cases():
            result = run_case(jc, rec)
            rec.count("adversarial_membership_cases")
            rec.case(("adversarial", jc["features"]["label_pool"], tuple(d["label"] for d in jc["datasets"])), result is not None, features=[f"pool={jc['features']['label_pool']}", "adversarial"])
    for i in range(spec["n"]):
        pool = POOLS[i % len(POOLS)] if i % 2 else POOLS[int(rng.integers(len(POOLS)))]
        case = c02.fix_groups(S.gen_case(rng, label_pool=pool, layouts=("mg", "gm", "mg_f", "gm_f")))
        jc = S.jsonable_case(case)
        result = run_case(jc, rec)
        nt = False
        if result is not None:
            rms = max(float(np.sqrt(np.mean(result.data[d["label"]].residual.values ** 2))) for d in jc["datasets"])
            nt = rms > 1e-3 and all(len(d["t"]) != len(d["g"]) for d in jc["datasets"])
        rec.case(signature(case), nt, sample=jc if i == 0 else None,
                 features=[f"pool={pool}", f"link={case['features'].get('link_clp')}", f"axes={case['features'].get('axes')}"])


def replay(case, rec):
    attach(rec)
    S.model_class()
    run_case(case, rec)
