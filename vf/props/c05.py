"""C05 - Gaussian IRF convolution is exact, for every index of a dispersed or shifted IRF.

Monitors: recording wrappers on the two kernel names as bound in decay.util (arguments and the
output matrix) and on Irf*.parameter (index -> centres, widths, scales, shift).
Oracle: vf.ref.irf (40-digit mpmath reference of the convolution; fast float form as pre-filter),
the oracle's own broadcasting / shift / dispersion of the IRF parameters per global index, and the
index identity (matrix[i] of the dispersed model == index-independent matrix at that index's
effective centre and width).
"""
from __future__ import annotations

import numpy as np

from vf.core import CaseTimeout, rng_for, time_limit
from vf.ref import irf as I

LEVEL = "exploration"
RULE = (
    "Decay-parallel models with multi-gaussian / gaussian / spectral-(multi-)gaussian IRFs: rates 1e-4..1e3, widths 1e-3..10, time "
    "axes centre + width * [-100, 1000] incl. the branch switch-over (beta - alpha = -1 +- {0, 1 ulp, 1e-9, 1e-3}) and deep underflow, "
    "1-3 Gaussians with centres / widths / scales broadcast (1 x n, n x 1, n x n), normalise on/off, per-index shifts, centre and "
    "width dispersion polynomials of order 0-3 with either dispersion variable, increasing and decreasing global axes.  Every "
    "recorded kernel call is judged pointwise against the convolution reference; the kernel's per-index arguments against the "
    "oracle's own effective centres / widths; the returned matrix against scales / normalisation / A-matrix factor; matrix[i] of "
    "a dispersed / shifted model against the index-independent model at that index.  Non-trivial: value in (1e-290, 1) and the "
    "matrix differs from the neighbouring index by more than the tolerance; distinct = (branch, alpha decade, beta decade, number "
    "of Gaussians, dispersion orders, variable, normalise, shift)."
)
ASSUMPTIONS = [
    "mpmath at 40 digits is the primary reference; the fast erfcx form is only a pre-filter and is itself sampled against mpmath",
    "tolerance = 64 eps * cond_f * (|ref| + 1e-3 max|column|), cond_f the conditioning of the mathematical function (DESIGN.md section 3)",
    "backsweep is outside the property",
]
MIN_NONTRIVIAL = {"quick": 100, "thorough": 1000}
DECIDING = ["kernel_calls_recorded", "kernel_points_judged", "index_parameter_sets_compared", "index_identity_checked", "mon:irf.parameter", "mpmath_points"]


def attach(rec, log):
    import glotaran.builtin.megacomplexes.decay.irf as IRF
    import glotaran.builtin.megacomplexes.decay.util as U
    from vf.instrument import wrap

    def mk(name):
        def after(a, k, out, exc, tok):
            if exc is None:
                rec.count("kernel_calls_recorded")
                log.append((name, [np.array(x, copy=True) if isinstance(x, np.ndarray) else x for x in a]))

        return after

    wrap(U, "calculate_decay_matrix_gaussian_irf_on_index", after=mk("on_index"), rec=rec, key="mon:kernel_on_index")
    wrap(U, "calculate_decay_matrix_gaussian_irf", after=mk("indexed"), rec=rec, key="mon:kernel_indexed")
    wrap(IRF.IrfMultiGaussian, "parameter", rec=rec, key="mon:irf.parameter")
    wrap(IRF.IrfSpectralMultiGaussian, "parameter", rec=rec, key="mon:irf.parameter")


# ---------------------------------------------------------------- generator
def gen_case(rng, focus=None):
    kind = str(rng.choice(["multi-gaussian", "gaussian", "spectral-multi-gaussian", "spectral-gaussian"]))
    if kind in ("gaussian", "spectral-gaussian"):
        ncent, nwid = 1, 1
    else:
        ncent, nwid = [(1, 1), (1, 2), (2, 1), (2, 2), (3, 3), (1, 3), (3, 1)][int(rng.integers(7))]
    spectral = kind.startswith("spectral")
    oc, ow = (int(rng.integers(0, 4)), int(rng.integers(0, 4))) if spectral else (0, 0)
    wn = bool(rng.integers(2)) if spectral else False
    shift = bool(rng.integers(2))
    normalize = bool(rng.integers(2))
    scales = bool(rng.integers(2)) and kind not in ("gaussian", "spectral-gaussian")
    ng = int(rng.integers(1, 6))
    g = np.sort(rng.uniform(400, 720, ng))
    r_ = int(rng.integers(3))
    if r_ == 1:
        g = g[::-1].copy()
    elif r_ == 2:
        g = rng.permutation(g)  # a global axis is not necessarily sorted
    nrates = int(rng.integers(1, 4))
    regime = str(rng.choice(["wide", "moderate", "switch"])) if focus is None else focus
    if regime == "wide":
        rates = 10.0 ** rng.uniform(-4, 3, nrates)
        widths = 10.0 ** rng.uniform(-3, 1, 3)
    else:
        rates = 10.0 ** rng.uniform(-2, 1, nrates)
        widths = 10.0 ** rng.uniform(-1.5, 0, 3)
    centers = rng.uniform(-1, 1, 3)
    w0 = float(widths[0])
    if regime == "wide":
        t = centers[0] + w0 * np.sort(np.concatenate([rng.uniform(-100, 1000, 14), rng.uniform(-6, 6, 8), [-100.0, 1000.0]]))
    elif regime == "switch":
        # beta - alpha = -1 +- delta  <=> t = centre + width*sqrt2*(alpha - 1 +- delta)
        k0 = float(rates[0])
        alpha = k0 * w0 / np.sqrt(2)
        base = centers[0] + w0 * np.sqrt(2) * (alpha - 1.0)
        deltas = np.array([0.0, 1e-9, -1e-9, 1e-3, -1e-3, 1e-6, -1e-6])
        t = np.sort(np.concatenate([base + w0 * np.sqrt(2) * deltas, [np.nextafter(base, np.inf), np.nextafter(base, -np.inf)], centers[0] + w0 * rng.uniform(-8, 30, 8)]))
    else:
        t = np.sort(rng.uniform(-3, 25, 24))
    vals = {f"c{i}": float(centers[i]) for i in range(3)}
    vals.update({f"w{i}": float(widths[i]) for i in range(3)})
    vals.update({f"s{i}": float(rng.uniform(0.3, 2.5)) for i in range(3)})
    vals["dc"] = float(rng.choice([550.0, 500.0, 610.0]))
    cd_scale = 0.05 if regime != "wide" else 0.02 * w0
    vals.update({f"cd{i}": float(rng.uniform(-1, 1) * cd_scale) for i in range(3)})
    vals.update({f"wd{i}": float(rng.uniform(-1, 1) * 0.02 * widths.min()) for i in range(3)})
    vals.update({f"sh{i}": float(rng.uniform(-0.3, 0.3) * (w0 if regime == "wide" else 1.0)) for i in range(5)})
    vals.update({f"r{i}": float(rates[i]) for i in range(nrates)})
    return {"kind": kind, "ncent": ncent, "nwid": nwid, "oc": oc, "ow": ow, "wn": wn, "shift": shift, "normalize": normalize, "scales": scales,
            "g": g.tolist(), "t": t.tolist(), "vals": vals, "nrates": nrates, "regime": regime}


def build(case):
    from glotaran.parameter import Parameters
    from vf.gen.simple import all_builtin_model_class

    kind = case["kind"]
    single = kind in ("gaussian", "spectral-gaussian")
    irf = {"type": kind, "normalize": case["normalize"]}
    irf["center"] = "c0" if single else [f"c{i}" for i in range(case["ncent"])]
    irf["width"] = "w0" if single else [f"w{i}" for i in range(case["nwid"])]
    if case["scales"]:
        irf["scale"] = [f"s{i}" for i in range(max(case["ncent"], case["nwid"]))]
    if kind.startswith("spectral"):
        irf["dispersion_center"] = "dc"
        irf["center_dispersion_coefficients"] = [f"cd{i}" for i in range(case["oc"])]
        irf["width_dispersion_coefficients"] = [f"wd{i}" for i in range(case["ow"])]
        irf["model_dispersion_with_wavenumber"] = case["wn"]
    if case["shift"]:
        irf["shift"] = [f"sh{i}" for i in range(len(case["g"]))]
    comps = [f"a{i}" for i in range(case["nrates"])]
    spec = {"megacomplex": {"m": {"type": "decay-parallel", "compartments": comps, "rates": [f"r{i}" for i in range(case["nrates"])]}},
            "irf": {"i": irf}, "dataset": {"d": {"megacomplex": ["m"], "irf": "i"}}}
    model = all_builtin_model_class()(**spec)
    params = Parameters.from_list([[k, float(v)] for k, v in case["vals"].items()])
    return model, params, comps


def oracle_index_parameters(case, i):
    """Effective (centres, widths, scales) of global index i, from the documentation."""
    v = case["vals"]
    c = np.array([v[f"c{j}"] for j in range(case["ncent"])])
    w = np.array([v[f"w{j}"] for j in range(case["nwid"])])
    if case["ncent"] == 1 and case["nwid"] > 1:
        c = np.repeat(c, case["nwid"])
    if case["nwid"] == 1 and case["ncent"] > 1:
        w = np.repeat(w, case["ncent"])
    n = len(c)
    if case["kind"].startswith("spectral"):
        lam = case["g"][i]
        d = (1e3 / lam - 1e3 / v["dc"]) if case["wn"] else (lam - v["dc"]) / 100.0
        c = c + sum(v[f"cd{j}"] * d ** (j + 1) for j in range(case["oc"]))
        w = w + sum(v[f"wd{j}"] * d ** (j + 1) for j in range(case["ow"]))
    if case["shift"]:
        c = c - v[f"sh{i}"]
    sc = np.array([v[f"s{j}"] for j in range(n)]) if case["scales"] else np.ones(n)
    return c, w, sc


def is_index_dependent(case):
    return case["shift"] or case["kind"].startswith("spectral")


def run_case(case, rec, log, rng):
    from glotaran.model.item import fill_item

    model, params, comps = build(case)
    dm = fill_item(model.dataset["d"], model, params)
    g, t = np.asarray(case["g"]), np.asarray(case["t"])
    del log[:]
    ctx = dict(case)
    try:
        labels, matrix = dm.megacomplex[0].calculate_matrix(dm, g, t)
    except Exception as e:  # noqa
        if (np.array([oracle_index_parameters(case, i)[1] for i in range(len(g))]) <= 0).any():
            rec.skip("non-positive effective width (generator)")
            return None
        rec.violation(f"raises:{type(e).__name__}", ctx, f"{type(e).__name__}: {str(e)[:200]}")
        return None
    matrix = np.asarray(matrix)
    if any((oracle_index_parameters(case, i)[1] <= 0).any() for i in range(len(g))):
        rec.skip("non-positive effective width (generator)")
        return None
    nr = case["nrates"]
    rates = np.array([case["vals"][f"r{i}"] for i in range(nr)])
    idxdep = is_index_dependent(case)
    if (matrix.ndim == 3) != idxdep:
        rec.violation("index-dependence", ctx, f"matrix ndim {matrix.ndim} for index dependent = {idxdep}")
        return None
    # (ii) the kernel's arguments == oracle's per-index parameters
    calls = [c for c in log if c[0] in ("indexed", "on_index")]
    # the kernel-argument monitor is a diagnostic that presupposes today's call structure (one call, one parameter row
    # per global index); when the structure differs the verdict rests on the returned matrix alone (judged below)
    structure = len(calls) == 1
    if structure:
        name, args = calls[0]
        try:
            structure = (len(args[3]) == len(g) and len(args[4]) == len(g) and len(args[0]) == len(g)) if idxdep else np.ndim(args[0]) == 2
        except Exception:  # noqa
            structure = False
    if not structure:
        rec.count("kernel_argument_monitor_not_applicable")
    worst = 0.0
    nontrivial = False
    for i in range(len(g) if idxdep else 1):
        c, w, sc = oracle_index_parameters(case, i)
        rec.count("index_parameter_sets_compared")
        norm = float(np.sum(sc)) if case["normalize"] else 1.0
        if structure:
            if idxdep:
                kc, kw, ks = args[3][i], args[4][i], np.asarray(args[5], dtype=float)
                kout = args[0][i]
            else:
                kc, kw, ks = np.asarray(args[3], dtype=float), np.asarray(args[4], dtype=float), np.asarray(args[5], dtype=float)
                kout = args[0]
            if kc.shape != c.shape or not (np.allclose(kc, c, rtol=1e-13, atol=1e-15) and np.allclose(kw, w, rtol=1e-13, atol=1e-15) and np.allclose(ks, sc, rtol=1e-14)):
                rec.violation(f"index-parameters:{'shift' if case['shift'] else ''}{'+disp' if case['kind'].startswith('spectral') else ''}", ctx,
                              f"index {i} (lambda {g[i]}): kernel got centres {kc}, widths {kw}, scales {ks}; documented effective values {c}, {w}, {sc}")
                return None
        else:
            # judge the RETURNED matrix against the convolution at the oracle's own effective parameters
            kc, kw, ks = c, w, sc
            mi = matrix[i] if idxdep else matrix
            kout = np.column_stack([mi[:, labels.index(comps[r])] for r in range(nr)]) * norm * nr
        # (i) kernel output pointwise (before normalisation: kernel sums scale_g * conv)
        for r in range(nr):
            sl, wi, wref, nmp = I.judge_column(kout[:, r] / norm, float(rates[r]), t, list(kw), list(kc), list(ks), rng=rng, factor=1.0 / norm)
            rec.count("kernel_points_judged", len(t))
            rec.count("mpmath_points", nmp)
            worst = max(worst, sl)
            if sl > 1.0:
                alpha = rates[r] * kw[0] / np.sqrt(2)
                beta = (t[wi] - kc[0]) / (kw[0] * np.sqrt(2))
                rec.violation(f"kernel-value:{'erfcx-branch' if beta - alpha < -1 else 'erf-branch'}", ctx,
                              f"rate {rates[r]:.4g}, width {kw[0]:.4g}, t-centre {t[wi] - kc[0]:.6g}: kernel {kout[wi, r] / norm!r} vs reference {wref!r} (slack {sl:.3g})")
                return None
            # returned matrix: A-matrix of the parallel megacomplex = 1/n per compartment
            got = (matrix[i] if idxdep else matrix)[:, labels.index(comps[r])]
            want = kout[:, r] / norm / nr
            if not np.allclose(got, want, rtol=1e-13, atol=1e-300):
                rec.violation("matrix-vs-kernel", ctx, f"returned column {comps[r]} is not kernel / normalisation x 1/{nr}")
                return None
            v = np.abs(kout[:, r] / norm)
            if ((v > 1e-290) & (v < 1)).any():
                nontrivial = True
    rec.slack("kernel_value", worst)
    # (iii) index identity against the index-independent model
    disc = False
    if idxdep:
        for i in range(len(g)):
            c, w, sc = oracle_index_parameters(case, i)
            plain = dict(case)
            plain.update(kind="multi-gaussian", ncent=len(c), nwid=len(w), oc=0, ow=0, wn=False, shift=False, scales=case["scales"])
            plain["vals"] = dict(case["vals"])
            for j in range(len(c)):
                plain["vals"][f"c{j}"] = float(c[j])
                plain["vals"][f"w{j}"] = float(w[j])
            m2, p2, _ = build(plain)
            dm2 = fill_item(m2.dataset["d"], m2, p2)
            l2, mat2 = dm2.megacomplex[0].calculate_matrix(dm2, g, t)
            rec.count("index_identity_checked")
            mat2 = np.asarray(mat2)
            scale = max(np.abs(mat2).max(), 1e-300)
            dev = np.abs(matrix[i] - mat2[:, [l2.index(x) for x in labels]]).max()
            if not dev <= 1e-12 * scale + 64 * I.EPS * np.abs(mat2).max() * 1e3:  # NaN-aware
                rec.violation("index-identity", ctx, f"matrix[{i}] differs from the index-independent matrix at (centre - shift, width) of that index by {dev:.3e}")
                return None
            if i > 0 and not np.abs(matrix[i] - matrix[i - 1]).max() <= 1e-9 * scale:
                disc = True
    # (iii-b) the matrix of index i is the one that meets the data column of index i when the model is fitted: data
    # simulated column by column as matrix[i] @ clp_i (axis as stored: ascending, descending or unsorted) leave no
    # residual at the generating parameters
    if idxdep and len(g) >= 2 and len(set(t.tolist())) == len(t) and len(set(g.tolist())) == len(g) and np.isfinite(matrix).all():
        import xarray as xr
        from glotaran.optimization.optimize import optimize
        from glotaran.project import Scheme

        clp = rng.uniform(0.5, 2.0, (len(g), len(labels)))
        D = np.stack([matrix[i] @ clp[i] for i in range(len(g))], axis=1)
        dmax = float(np.abs(D).max())
        if np.isfinite(D).all() and dmax > 1e-200:
            m4, p4, _ = build(case)
            ds = xr.DataArray(D, coords=[("time", t), ("spectral", g)]).to_dataset(name="data")
            try:
                with time_limit(60):
                    r4 = optimize(Scheme(model=m4, parameters=p4, data={"d": ds}, maximum_number_function_evaluations=1, add_svd=False), verbose=False, raise_exception=True)
            except (Exception, CaseTimeout) as e:  # noqa
                r4 = None
                if isinstance(e, CaseTimeout) or "infs or NaNs" in str(e):
                    rec.skip(f"in-situ fit not evaluable: {type(e).__name__}")
                else:
                    rec.violation(f"insitu:raises:{type(e).__name__}", ctx, f"{type(e).__name__}: {str(e)[:200]}")
                    return None
            if r4 is not None:
                res = r4.data["d"].residual.transpose("time", "spectral").values
                rec.count("insitu_fits_checked")
                order = "ascending" if (np.diff(g) > 0).all() else ("descending" if (np.diff(g) < 0).all() else "unsorted")
                rec.features[f"insitu-axis={order}"] += 1
                dev = float(np.abs(res).max()) / dmax
                if not dev <= 1e-8:
                    rec.violation(f"insitu:column-meets-another-index-matrix:{order}", ctx,
                                  f"data simulated as matrix[i] @ clp_i per global index ({order} axis {g.tolist()}) leave a residual of {dev:.3e} (relative) at the generating parameters")
                    return None
    # (iv) the SAME filled dataset model after the IRF parameters were changed in place: equal to a freshly filled one
    try:
        case2 = dict(case, vals=dict(case["vals"]))
        for k in list(case2["vals"]):
            if k[0] in "cw" and k[1:].isdigit():
                case2["vals"][k] = case2["vals"][k] * 1.3 + (0.37 * case["vals"]["w0"] if k[0] == "c" else 0.0)
                params.get(k).value = case2["vals"][k]
        if not any((oracle_index_parameters(case2, i)[1] <= 0).any() for i in range(len(g))):
            l_re, m_re = dm.megacomplex[0].calculate_matrix(dm, g, t)
            m3, p3, _ = build(case2)
            dm3 = fill_item(m3.dataset["d"], m3, p3)
            l_fr, m_fr = dm3.megacomplex[0].calculate_matrix(dm3, g, t)
            rec.count("reused_filled_models_checked")
            m_re, m_fr = np.asarray(m_re), np.asarray(m_fr)
            if list(l_re) != list(l_fr) or m_re.shape != m_fr.shape or not np.allclose(m_re, m_fr, rtol=1e-13, atol=1e-300, equal_nan=True):
                d = float(np.nanmax(np.abs(m_re - m_fr))) if m_re.shape == m_fr.shape else float("inf")
                rec.violation("reuse:stale-irf-parameters", ctx, f"the filled dataset model re-evaluated after its IRF centre / width parameters were changed in place differs from a freshly filled model by {d:.3e}")
                return None
    except KeyError:
        pass
    return bool(nontrivial and (disc or not idxdep))


def signature(case):
    v = case["vals"]
    alpha = v["r0"] * v["w0"]
    return (case["kind"], case["ncent"], case["nwid"], case["oc"], case["ow"], case["wn"], case["shift"], case["normalize"], case["scales"], case["regime"],
            int(np.floor(np.log10(alpha))))


def plan(tier, seed):
    n = {"quick": 16, "thorough": 32}[tier]
    return [{"shard": i, "n": {"quick": 150, "thorough": 1500}[tier]} for i in range(n)]


def run_shard(spec, rec):
    log = []
    attach(rec, log)
    rng = rng_for(spec)
    for i in range(spec["n"]):
        case = gen_case(rng)
        nt = run_case(case, rec, log, rng)
        rec.case(signature(case), bool(nt), sample=case if i == 0 else None,
                 features=[f"kind={case['kind']}", f"regime={case['regime']}", f"gauss={max(case['ncent'], case['nwid'])}", f"shift={case['shift']}"])


def replay(case, rec):
    log = []
    attach(rec, log)
    run_case(case, rec, log, np.random.default_rng(0))
