"""Child process of the C10 schedule check: evaluates objective sequences of builtin kinetic models
that enter every parallel numba kernel and reports hashes + the threading layer actually used."""
import hashlib
import json
import sys
import warnings

import numpy as np

warnings.simplefilter("ignore")


def build(kind, seed):
    import xarray as xr
    from glotaran.parameter import Parameters
    from glotaran.project import Scheme
    from vf.gen.simple import all_builtin_model_class

    rng = np.random.default_rng(seed)
    t = np.linspace(-1.0, 30.0, 1500)
    g = np.linspace(400.0, 700.0, 12)
    spec = {"dataset": {"d1": {"megacomplex": ["m1"]}}, "megacomplex": {}}
    pl = [["k1", 0.9], ["k2", 0.21], ["k3", 0.045]]
    if kind == "decay_no_irf":
        t = np.linspace(0.0, 30.0, 1500)
        spec["megacomplex"]["m1"] = {"type": "decay-parallel", "compartments": ["s1", "s2", "s3"], "rates": ["k1", "k2", "k3"]}
    elif kind == "decay_dispersed_irf":
        spec["megacomplex"]["m1"] = {"type": "decay-sequential", "compartments": ["s1", "s2", "s3"], "rates": ["k1", "k2", "k3"]}
        spec["irf"] = {"i1": {"type": "spectral-multi-gaussian", "center": ["c"], "width": ["w"], "dispersion_center": "dc",
                              "center_dispersion_coefficients": ["cd1", "cd2"]}}
        spec["dataset"]["d1"]["irf"] = "i1"
        pl += [["c", 0.3], ["w", 0.15], ["dc", 550.0, {"vary": False}], ["cd1", 0.05], ["cd2", 0.01]]
    elif kind == "coherent_artifact":
        spec["megacomplex"]["m1"] = {"type": "decay-parallel", "compartments": ["s1", "s2"], "rates": ["k1", "k2"]}
        spec["megacomplex"]["m2"] = {"type": "coherent-artifact", "order": 3}
        spec["dataset"]["d1"]["megacomplex"] = ["m1", "m2"]
        spec["irf"] = {"i1": {"type": "spectral-gaussian", "center": "c", "width": "w", "dispersion_center": "dc",
                              "center_dispersion_coefficients": ["cd1"]}}
        spec["dataset"]["d1"]["irf"] = "i1"
        pl += [["c", 0.3], ["w", 0.15], ["dc", 550.0, {"vary": False}], ["cd1", 0.05]]
    elif kind == "decay_multi_gaussian_irf":
        spec["megacomplex"]["m1"] = {"type": "decay-parallel", "compartments": ["s1", "s2", "s3"], "rates": ["k1", "k2", "k3"]}
        spec["irf"] = {"i1": {"type": "multi-gaussian", "center": ["c", "c2"], "width": ["w", "w2"], "scale": ["sc1", "sc2"]}}
        spec["dataset"]["d1"]["irf"] = "i1"
        pl += [["c", 0.3], ["c2", 0.9], ["w", 0.15], ["w2", 0.4], ["sc1", 1.0, {"vary": False}], ["sc2", 0.4]]
    elif kind == "oscillation_no_irf":
        t = np.linspace(0.0, 3.0, 1500)
        spec["megacomplex"]["m1"] = {"type": "damped-oscillation", "labels": ["o1", "o2"], "frequencies": ["f1", "f2"], "rates": ["k1", "k2"]}
        pl += [["f1", 120.0], ["f2", 310.0]]
    elif kind == "spectral_axis_scale":
        # full model: decay along time x spectral shapes along a SCALED (not inverted) spectral axis
        t = np.linspace(0.0, 30.0, 300)
        spec["megacomplex"]["m1"] = {"type": "decay-parallel", "compartments": ["s1", "s2"], "rates": ["k1", "k2"]}
        spec["megacomplex"]["sp"] = {"type": "spectral", "shape": {"s1": "sh1", "s2": "sh2"}}
        spec["shape"] = {"sh1": {"type": "gaussian", "amplitude": "a1", "location": "l1", "width": "w1"},
                         "sh2": {"type": "skewed-gaussian", "amplitude": "a2", "location": "l2", "width": "w2", "skewness": "sk"}}
        spec["dataset"]["d1"] = {"megacomplex": ["m1"], "global_megacomplex": ["sp"], "spectral_axis_scale": 1.01}
        pl += [["a1", 3.0, {"vary": False}], ["l1", 480.0], ["w1", 60.0], ["a2", 2.0, {"vary": False}], ["l2", 620.0], ["w2", 50.0], ["sk", 0.2]]
    elif kind == "clp_guide_scaled":
        # a guide spectrum for one clp: its amplitude is arbitrary, so the guide's megacomplex carries a scale
        t = np.linspace(0.0, 30.0, 60)
        spec["megacomplex"]["m1"] = {"type": "decay-parallel", "compartments": ["s1", "s2"], "rates": ["k1", "k2"]}
        spec["megacomplex"]["gd"] = {"type": "clp-guide", "dimension": "time", "target": "s1"}
        spec["dataset_groups"] = {"default": {"residual_function": "variable_projection", "link_clp": True}}
        spec["dataset"] = {"d1": {"megacomplex": ["m1"]}, "d2": {"megacomplex": ["gd"], "megacomplex_scale": ["gsc"]}}
        pl += [["gsc", 0.7, {"vary": False}]]
        model = all_builtin_model_class()(**spec)
        data = {"d1": xr.DataArray(rng.standard_normal((t.size, g.size)), coords=[("time", t), ("spectral", g)]).to_dataset(name="data"),
                "d2": xr.DataArray(rng.standard_normal((1, g.size)), coords=[("time", [0.0]), ("spectral", g)]).to_dataset(name="data")}
        return Scheme(model=model, parameters=Parameters.from_list(pl), data=data, maximum_number_function_evaluations=2, add_svd=False)
    elif kind == "all_scaled":
        # every index-independent builtin megacomplex type in one dataset, each with its own scale, plus a dataset scale
        t = np.linspace(-1.0, 30.0, 80)
        spec["megacomplex"]["m1"] = {"type": "decay-parallel", "compartments": ["s1", "s2"], "rates": ["k1", "k2"]}
        spec["megacomplex"]["m2"] = {"type": "baseline", "dimension": "time"}
        spec["megacomplex"]["m3"] = {"type": "damped-oscillation", "labels": ["o1"], "frequencies": ["f1"], "rates": ["k3"]}
        spec["megacomplex"]["m4"] = {"type": "coherent-artifact", "order": 2}
        spec["megacomplex"]["m5"] = {"type": "decay-sequential", "compartments": ["q1", "q2"], "rates": ["k4", "k5"]}
        spec["irf"] = {"i1": {"type": "gaussian", "center": "c", "width": "w"}}
        spec["dataset"]["d1"] = {"megacomplex": ["m1", "m2", "m3", "m4", "m5"], "megacomplex_scale": ["ms1", "ms2", "ms3", "ms4", "ms5"], "scale": "dsc", "irf": "i1"}
        pl += [["f1", 2.0], ["k4", 1.7], ["k5", 0.02], ["c", 0.3], ["w", 0.15], ["dsc", 1.4, {"vary": False}],
               ["ms1", 1.0, {"vary": False}], ["ms2", 0.6], ["ms3", 1.9], ["ms4", 0.3], ["ms5", 2.5]]
    elif kind == "split_decay":
        # two general decay megacomplexes over disjoint compartments of ONE initial concentration (compartment names used
        # by no other kind: whatever the process has seen before, these are new to it)
        t = np.linspace(0.0, 30.0, 80)
        spec["megacomplex"]["m1"] = {"type": "decay", "k_matrix": ["km1"]}
        spec["megacomplex"]["m2"] = {"type": "decay", "k_matrix": ["km2"]}
        spec["k_matrix"] = {"km1": {"matrix": {("u2", "u1"): "k1", ("u2", "u2"): "k2"}}, "km2": {"matrix": {("u4", "u3"): "k3", ("u4", "u4"): "k4"}}}
        spec["initial_concentration"] = {"j": {"compartments": ["u1", "u2", "u3", "u4"], "parameters": ["j1", "j0", "j3", "j0"]}}
        spec["dataset"]["d1"] = {"megacomplex": ["m1", "m2"], "initial_concentration": "j"}
        pl += [["k4", 0.011], ["j1", 1.0, {"vary": False}], ["j0", 0.0, {"vary": False}], ["j3", 0.6, {"vary": False}]]
    elif kind == "multi_group":
        # several dataset groups: the objective is the concatenation of the group penalties in a fixed order
        t = np.linspace(0.0, 30.0, 150)
        spec["megacomplex"]["m1"] = {"type": "decay-parallel", "compartments": ["s1", "s2", "s3"], "rates": ["k1", "k2", "k3"]}
        names = ["alpha", "beta", "gamma", "delta"]
        spec["dataset_groups"] = {n: {"residual_function": "variable_projection", "link_clp": None} for n in names}
        spec["dataset"] = {f"d{i + 1}": {"megacomplex": ["m1"], "group": n} for i, n in enumerate(names)}
        model = all_builtin_model_class()(**spec)
        data = {f"d{i + 1}": xr.DataArray(rng.standard_normal((t.size, g.size - i)), coords=[("time", t), ("spectral", g[: g.size - i])]).to_dataset(name="data")
                for i in range(len(names))}
        return Scheme(model=model, parameters=Parameters.from_list(pl), data=data, maximum_number_function_evaluations=2, add_svd=False)
    model = all_builtin_model_class()(**spec)
    params = Parameters.from_list(pl)
    data = xr.DataArray(rng.standard_normal((t.size, g.size)), coords=[("time", t), ("spectral", g)]).to_dataset(name="data")
    return Scheme(model=model, parameters=params, data={"d1": data}, maximum_number_function_evaluations=2, add_svd=False)


def main():
    spec = json.loads(sys.argv[1])
    import numba

    if spec.get("chunksize"):
        numba.set_parallel_chunksize(int(spec["chunksize"]))
    import glotaran.builtin.megacomplexes.coherent_artifact.coherent_artifact_megacomplex as CA
    import glotaran.builtin.megacomplexes.damped_oscillation.damped_oscillation_megacomplex as DO
    import glotaran.builtin.megacomplexes.decay.decay_matrix_gaussian_irf as GI
    import glotaran.builtin.megacomplexes.decay.util as U
    from glotaran.optimization.optimize import optimize
    from glotaran.optimization.optimizer import Optimizer

    counts = {}

    def count(mod, name):
        orig = getattr(mod, name)

        def w(*a, **k):
            counts[name] = counts.get(name, 0) + 1
            return orig(*a, **k)

        setattr(mod, name, w)

    count(U, "calculate_decay_matrix_no_irf")
    count(U, "calculate_decay_matrix_gaussian_irf")
    count(CA, "_calculate_coherent_artifact_matrix")
    count(DO, "calculate_damped_oscillation_matrix_no_irf")
    pens = []
    orig_obj = Optimizer.objective_function

    def obj(self, x):
        out = orig_obj(self, x)
        pens.append(np.array(out, copy=True))
        return out

    Optimizer.objective_function = obj
    out = {}
    for kind in spec["kinds"]:
        del pens[:]
        scheme = build(kind, spec["dseed"])
        res = optimize(scheme, verbose=False, raise_exception=True)
        h = hashlib.sha256()
        for p in pens:
            h.update(p.tobytes())
        for p in res.optimized_parameters.all():
            h.update(np.float64(p.value).tobytes())
        h.update(",".join(res.data.keys()).encode())
        out[kind] = {"hash": h.hexdigest(), "n_eval": len(pens), "first": [float(v) for v in pens[0][:3]], "norm": float(np.linalg.norm(pens[-1]))}
    try:
        layer = numba.threading_layer()
    except Exception:  # noqa
        layer = "not-initialised"
    print("VFRESULT " + json.dumps({"results": out, "layer": layer, "threads": numba.get_num_threads(), "kernel_calls": counts}))


if __name__ == "__main__":
    main()
