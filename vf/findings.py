"""Known findings: genuine defects recorded rather than repaired.

known_findings.json is committed and never written at run time.  A violation is attributed to
an open entry only when the property's oracle itself tagged it with that entry's id, which it
does only if the case satisfies the entry's predicate AND the observation equals what the
entry's bug model predicts.  'fixed' entries suppress nothing.
"""
import json
import os

ROOT = os.path.dirname(os.path.dirname(os.path.abspath(__file__)))


def load_all():
    p = os.path.join(ROOT, "known_findings.json")
    if not os.path.exists(p):
        return []
    with open(p) as f:
        return json.load(f)["findings"]


def load_open(prop):
    return {e["id"]: e for e in load_all() if e["property"] == prop and e["status"] == "open"}
