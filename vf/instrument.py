"""Attaching monitors to the real code from outside the repository.

* contract(owner, name, post=..., pre=...): icontract-based; conditions RECORD and return True
  (a raising contract inside scipy callbacks / Parameters.__init__ would change the execution
  that is being judged).
* wrap(owner, name, after=..., before=...): plain recorder for callables icontract cannot
  decorate (numba dispatchers, classmethods, dict entries).
Every attachment counts its evaluations in rec.counters["mon:<name>"].
"""
from __future__ import annotations

import functools

import icontract


class MonitorError(Exception):
    pass


def wrap(owner, name, after=None, before=None, rec=None, key=None):
    """Replace owner.name (attribute, or dict entry when owner is a dict) by a recording wrapper."""
    is_dict = isinstance(owner, dict)
    orig = owner[name] if is_dict else owner.__dict__.get(name, None) or getattr(owner, name)
    is_static = isinstance(orig, staticmethod)
    is_class = isinstance(orig, classmethod)
    func = orig.__func__ if (is_static or is_class) else orig
    label = key or f"mon:{getattr(owner, '__name__', 'dict')}.{name}"

    @functools.wraps(func)
    def wrapper(*a, **k):
        if rec is not None:
            rec.counters[label] += 1
        tok = before(*a, **k) if before else None
        try:
            out = func(*a, **k)
        except BaseException as e:
            if after:
                after(a, k, None, e, tok)
            raise
        if after:
            after(a, k, out, None, tok)
        return out

    wrapper.__vf_orig__ = orig
    new = staticmethod(wrapper) if is_static else classmethod(wrapper) if is_class else wrapper
    if is_dict:
        owner[name] = new
    else:
        setattr(owner, name, new)
    return wrapper


def unwrap(owner, name):
    cur = owner[name] if isinstance(owner, dict) else owner.__dict__.get(name, getattr(owner, name))
    f = cur.__func__ if isinstance(cur, (staticmethod, classmethod)) else cur
    orig = getattr(f, "__vf_orig__", None)
    if orig is not None:
        if isinstance(owner, dict):
            owner[name] = orig
        else:
            setattr(owner, name, orig)


def ensure(owner, name, condition, rec=None, snapshot=None, snapshot_name="snap", key=None):
    """icontract.ensure on owner.name; `condition` must record and return True."""
    is_dict = isinstance(owner, dict)
    orig = owner[name] if is_dict else owner.__dict__.get(name, None) or getattr(owner, name)
    label = key or f"contract:{getattr(owner, '__name__', 'dict')}.{name}"
    f = icontract.ensure(condition, error=MonitorError)(orig)
    if snapshot is not None:
        f = icontract.snapshot(snapshot, name=snapshot_name)(f)
    f.__vf_orig__ = orig
    if is_dict:
        owner[name] = f
    else:
        setattr(owner, name, f)
    return f
