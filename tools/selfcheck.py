#!/venv/bin/python
"""Apply each property-breaking mutant (mutants/mutants.json) to a scratch copy of /repo's
working tree under /tmp, run the property's check with VERIF_REPO=<copy>, expect exit 1 with a
VIOLATION line; remove the copy.  Usage: tools/selfcheck.py [substring-of-id ...] [--tier T] [--jobs N]
"""
import json, os, shutil, subprocess, sys, tempfile, time
from concurrent.futures import ThreadPoolExecutor

ROOT = os.path.dirname(os.path.dirname(os.path.abspath(__file__)))


def run(m, tier):
    tmp = tempfile.mkdtemp(prefix="vf-mut-")
    try:
        shutil.copytree("/repo/glotaran", os.path.join(tmp, "glotaran"),
                        ignore=shutil.ignore_patterns("__pycache__", "*.pyc"))
        for e in m["edits"]:
            p = os.path.join(tmp, e["file"])
            s = open(p).read()
            if s.count(e["old"]) != 1:
                return m, "BADMUTANT", f"{e['file']}: 'old' occurs {s.count(e['old'])}x"
            open(p, "w").write(s.replace(e["old"], e["new"]))
        env = dict(os.environ, VERIF_REPO=tmp, VF_EVIDENCE_DIR=os.path.join(tmp, "evidence"))
        t0 = time.time()
        p = subprocess.run([os.path.join(ROOT, "check"), m["property"], "--tier", tier],
                           env=env, capture_output=True, text=True)
        out = p.stdout + p.stderr
        viol = [l for l in out.splitlines() if l.startswith("VIOLATION")]
        status = "CAUGHT" if p.returncode == 1 and viol else f"MISSED(rc={p.returncode})"
        return m, status, (viol[0][:220] if viol else out[-400:]) + f"  [{time.time()-t0:.0f}s]"
    finally:
        shutil.rmtree(tmp, ignore_errors=True)


def main():
    args = sys.argv[1:]
    tier, jobs = "quick", 2
    if "--tier" in args:
        i = args.index("--tier"); tier = args[i + 1]; del args[i:i + 2]
    if "--jobs" in args:
        i = args.index("--jobs"); jobs = int(args[i + 1]); del args[i:i + 2]
    ms = json.load(open(os.path.join(ROOT, "mutants", "mutants.json")))
    if args:
        ms = [m for m in ms if any(a in m["id"] for a in args)]
    missed = 0
    with ThreadPoolExecutor(jobs) as ex:
        for m, status, info in ex.map(lambda m: run(m, tier), ms):
            print(f"{status:10s} {m['id']:40s} {info}", flush=True)
            missed += status != "CAUGHT"
    print(f"{len(ms) - missed}/{len(ms)} mutants caught")
    sys.exit(1 if missed else 0)


main()
