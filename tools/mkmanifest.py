#!/venv/bin/python
"""Regenerate MANIFEST.json from the table below + the property drivers that exist."""
import json, os, sys
ROOT = os.path.dirname(os.path.dirname(os.path.abspath(__file__)))
sys.path.insert(0, ROOT)
from tools.manifest_table import CHECKS, NOT_APPLICABLE, SOURCE_COMMITS

props = [json.loads(l)["id"] for l in open(os.path.join(ROOT, "properties.jsonl"))]
checks = []
for pid in props:
    if pid not in CHECKS:
        continue
    c = CHECKS[pid]
    assert os.path.exists(os.path.join(ROOT, "vf", "props", pid.lower() + ".py")), pid
    checks.append({
        "property_id": pid,
        "quick_cmd": f"./check {pid} --tier quick",
        "thorough_cmd": f"./check {pid} --tier thorough",
        "evidence_file": f"evidence/{pid}.json",
        "replay_cmd_template": f"./check {pid} --replay {{path}}",
        "engine": "vf",
        "level_claimed": {"category": c["category"], "text": c["text"], "design_ref": f"DESIGN.md section 4, {pid}"},
        "level_note": c["note"],
        "technique": c["technique"],
    })
na = [{"property_id": p, "reason": NOT_APPLICABLE.get(p, "check not built yet in this session (planned, see DESIGN.md section 4)")}
      for p in props if p not in CHECKS]
m = {
    "version": 1,
    "setup_cmd": "bash ./setup.sh",
    "hooks": {
        "guard": "GLOTARAN_VERIF",
        "enable": "no build step: /venv has /repo installed editable, every check starts fresh interpreters that import /repo's working tree; "
                  "all monitors are attached from the harness (icontract, wrappers, sys.monitoring, audit hooks); GLOTARAN_VERIF=1 is exported by ./check",
        "baseline_off_cmd": "cd /repo && /venv/bin/python -m pytest -ra -q -p no:cacheprovider --timeout=900 --continue-on-collection-errors",
        "source_commits": SOURCE_COMMITS,
        "add_only": True,
    },
    "engines": [{"name": "vf", "path": "vf/", "serves_properties": [c["property_id"] for c in checks],
                 "kind_free_text": "runtime monitoring harness: seeded/exhaustive workload generators, monitors attached to the real code, "
                                   "independent oracles, fault injection; fresh subprocess shards on 16 cores"}],
    "checks": checks,
    "notes": "Exit 0 held / 1 VIOLATION / 2 inconclusive (deciding monitor not reached, too few non-trivial cases, watchdog). "
             "known_findings.json lists recorded defects; see DESIGN.md.",
    "not_applicable": na,
}
json.dump(m, open(os.path.join(ROOT, "MANIFEST.json"), "w"), indent=1)
import jsonschema  # noqa
jsonschema.validate(m, json.load(open("/root/.vp/MANIFEST.schema.json")))
print("MANIFEST.json valid:", len(checks), "checks,", len(na), "not_applicable")
