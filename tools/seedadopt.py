#!/venv/bin/python
"""Confirm a change delivered by a seeding sub-agent and file it under seeded/<name>/.

Usage: tools/seedadopt.py <property> <name> <worktree> "<what it needs to manifest>"

In the scratch worktree (never /repo): the demonstration must exit 0 on the clean tree and 1 with the
patch; the repository's pinned test suite, run from the worktree with the patch applied, must give the
baseline outcome (643 passed, the one baseline failure test_cli_deprecation allowed).  Only then are
patch.diff, demo.py, notes.md and meta.json written.
"""
import json, os, re, shutil, subprocess, sys

ROOT = os.path.dirname(os.path.dirname(os.path.abspath(__file__)))
prop, name, wt, needs = sys.argv[1:5]
seed = os.path.join(wt, "_seed")
env = {k: v for k, v in os.environ.items() if k not in ("GLOTARAN_VERIF", "VERIF_REPO")}
env["PYTHONPATH"] = wt


def sh(cmd, **kw):
    return subprocess.run(cmd, cwd=wt, env=env, capture_output=True, text=True, **kw)


def demo():
    return sh(["/venv/bin/python", os.path.join(seed, "demo.py")], timeout=1800)


ran = []
sh(["git", "checkout", "--", "."])
clean = demo()
ran.append(f"demo.py on the clean worktree: exit {clean.returncode}")
a = sh(["git", "apply", os.path.join(seed, "patch.diff")])
if a.returncode:
    sys.exit(f"patch does not apply: {a.stderr}")
try:
    files = sh(["git", "diff", "--stat"]).stdout.strip().splitlines()
    patched = demo()
    ran.append(f"demo.py with the patch: exit {patched.returncode}")
    t = sh(["/venv/bin/python", "-m", "pytest", "-q", "-p", "no:cacheprovider", "--timeout=900",
            "--continue-on-collection-errors", "-n", "12"], timeout=3600)
    tail = [l for l in t.stdout.splitlines() if re.search(r"\d+ passed", l)]
    failed = [l for l in t.stdout.splitlines() if l.startswith("FAILED")]
    ran.append(f"pinned suite in the worktree with the patch (pytest -n 12): {tail[-1].strip('= ') if tail else 'no summary'}; failed: {[f.split(' ')[1] for f in failed]}")
finally:
    sh(["git", "checkout", "--", "."])
ok = (clean.returncode == 0 and patched.returncode == 1 and tail and "643 passed" in tail[-1]
      and all("test_cli_deprecation" in f for f in failed))
print("\n".join(ran))
print("last demo lines (patched):", patched.stdout.strip().splitlines()[-3:])
if not ok:
    sys.exit("NOT CONFIRMED")
dst = os.path.join(ROOT, "seeded", name)
os.makedirs(dst, exist_ok=True)
for f in ("patch.diff", "demo.py", "notes.md"):
    if os.path.exists(os.path.join(seed, f)):
        shutil.copy(os.path.join(seed, f), os.path.join(dst, f))
json.dump({"property": prop, "name": name, "origin": "fresh sub-agent given only the property text and a scratch worktree",
           "files_changed": files, "needs_to_manifest": needs, "what_i_ran": ran,
           "base_commit": sh(["git", "rev-parse", "HEAD"]).stdout.strip()},
          open(os.path.join(dst, "meta.json"), "w"), indent=1)
print("CONFIRMED ->", dst)
