#!/bin/bash
# tools/runall.sh [tier] [seed]  - run every check sequentially, print one line per property
cd "$(dirname "$0")/.."
TIER=${1:-quick}; SEED=${2:-0}
for p in C01 C02 C03 C04 C05 C06 C07 C08 C09 C10 C11 C12 C13 C14 C15 C16 C17 C18 C19 C20; do
  s=$(date +%s)
  out=$(./check $p --tier $TIER --seed $SEED 2>&1); rc=$?
  e=$(( $(date +%s) - s ))
  echo "$p rc=$rc ${e}s $(echo "$out" | grep -E "^\[$p\]" | cut -c1-110) $(echo "$out" | grep -c '^VIOLATION') violations $(echo "$out" | grep -c '^KNOWN-FINDING') known"
  echo "$out" | grep -E "^VIOLATION|INCONCLUSIVE" | cut -c1-300 | head -5
done
