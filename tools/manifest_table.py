SOURCE_COMMITS = []
NOT_APPLICABLE = {}
CHECKS = {
 "C19": dict(category="exploration",
   text="Every history over the bounded alphabet (2 short names + dotted name, 4 plugin classes, 3 registries) up to length 3 (quick) / 4 (thorough) "
        "is executed on the real public API and compared, after every operation, with an abstract map written from the statement; random histories "
        "up to length 40 extend the reach. Bounded-exhaustive exploration is the right level: the registry is a small deterministic state machine "
        "whose behaviour is determined by short histories.",
   note="Trusts the 60-line reference model vf/ref/registry.py and Python dict semantics; mock plugin classes stand in for real plugins.",
   technique="runtime monitoring: recorded API histories checked against an executable reference model (bounded-exhaustive + random)"),
 "C01": dict(category="exploration",
   text="An optimality certificate (shapes, residual = data - matrix@clp, orthogonality resp. KKT, independent optimum from SVD lstsq resp. "
        "exhaustive enumeration of all 2^n supports) is evaluated by an icontract postcondition on every call of both residual functions: tens of "
        "thousands of generated (matrix, data) pairs over conditioning 1..1e10, kinetic/oscillation/stacked matrices, data classes, scales and memory "
        "layouts, plus every internal solve of real optimisations. Tolerances are the kappa-free backward-error bound of a stable solver. "
        "Per-instance certificates decide optimality for each observed instance exactly; reach over 'all matrices' is by sampling.",
   note="Trusted base: numpy SVD/lstsq; NNLS optimum by enumeration (n<=8). Rank-deficient and kappa>1e10 instances skipped. Known finding F13 (scipy NNLS) is attributed only when clp is bit-equal to scipy's own answer in the stated regime.",
   technique="runtime monitoring: icontract postconditions on the real functions + per-instance optimality certificates (KKT / orthogonality) and independent optimum"),
 "C12": dict(category="exploration",
   text="Postconditions on Parameters.__init__/update_parameter_expression/set_from_label_and_value_arrays/set_from_history/copy compare every "
        "expression parameter with an independent evaluation of its expression tree on the current values, after construction (6 constructors), after "
        "optimiser-style updates, copy and history restore, and during real optimisations. All acyclic dependency graphs over <=4 expression parameters "
        "are enumerated; all 720 declaration orders in the thorough tier (seeded sample in quick). The quantifier (graphs x orders) is finite and small, so "
        "bounded-exhaustive execution is the right level; expression bodies and values are sampled.",
   note="Trusted base: numpy elementary functions, Python float arithmetic. Cyclic graphs excluded.",
   technique="runtime monitoring: postcondition monitors on the real Parameters methods + independent expression evaluator, exhaustive graph/order enumeration"),
 "C16": dict(category="exploration",
   text="Generated valid parameter sets (label, value, bound, flag, expression classes incl. numeric-looking and keyword-like labels, full double range) "
        "are saved and loaded through the real save_parameters/load_parameters for csv, tsv, xlsx, ods (+ separator and infinity options), twice, and "
        "compared field by field at the API with exact float equality; yml/list/dict specification texts are compared with a harness-built expectation. "
        "Sampling is the right level: the space of parameter sets is unbounded and the failure modes are type-inference classes, which the label / value / "
        "column classes enumerate.",
   note="Trusted base: Python float repr, the harness's expectation of the yml semantics. Known findings F9c/F9e/F9g (xlsx/ods library limitations) are attributed only when the exact bug model holds.",
   technique="runtime monitoring: round-trip oracle at the API boundary over generated parameter sets, recorders on the dataframe conversion paths"),
 "C02": dict(category="exploration",
   text="Recorders on Optimizer.objective_function and OptimizationGroup.get_full_penalty capture every objective evaluation scipy makes during short real "
        "optimisations of generated schemes (1-4 datasets, 1-2 groups, link_clp true/false/auto, index dependence, axis relations, weights, scales, "
        "constraints, relations, penalties, VP/NNLS, full models); each is compared per group (multiset + exact length) with an independent re-implementation "
        "of the documented objective evaluated from the scheme description at the same x. Sampling over feature combinations is the right level for an "
        "unbounded scheme space; the evidence lists the feature histogram actually covered.",
   note="Trusted base: vf/ref/objective.py (+ align.py, intervals.py), numpy lstsq, NNLS by enumeration; harness megacomplexes with closed-form matrices. "
        "NNLS groups in the F13 regime are decided only when they equal the optimum or scipy's answer. Ambiguous interval/alignment cases are left to C08/C09.",
   technique="runtime monitoring: recorded objective evaluations of real optimisations checked against an independent reference objective"),
 "C03": dict(category="exploration",
   text="Every result dataset of short real optimisations over the C02 scheme space (+ adversarial dataset labels, both data layouts, non-square data, "
        "partially shared aligned axes) is checked by coordinate label against the statement's identities and against the independent reference residual, clps "
        "and matrices at the optimised parameters; unique ids in the data digits identify a residual that landed on a foreign coordinate. Sampling over "
        "feature combinations x label pools is the right level for an unbounded space.",
   note="Trusted base: vf/ref/objective.py, xarray .sel. Cases whose reference is ill-conditioned (kappa>1e8) or NNLS in the F13 regime are skipped and counted.",
   technique="runtime monitoring: result-dataset oracle over real optimisations, label-keyed comparison with an independent reference, unique-id data"),
 "C13": dict(category="exploration",
   text="Every successful Result of real optimisations (three methods, 3-8 evaluations, noisy data) over the C02 scheme space is checked against the "
        "statement's formulae computed from the result's own datasets, the independent reference objective (penalties, number of clps) and a fresh "
        "optimiser's re-evaluation at the optimised parameters; covariance against the oracle's own SVD with a conditioning-aware tolerance.",
   note="Trusted base: vf/ref/objective.py, numpy SVD. Ill-conditioned references (kappa>1e8), NNLS groups in the F13 regime and singular values at the cut-off are skipped and counted.",
   technique="runtime monitoring: recorders on create_result / covariance + consistency oracle over real optimisation results"),
 "C08": dict(category="exploration",
   text="For each item kind x interval class x axis class the affected set is read off the Result of a real one-evaluation optimisation (exact zeros, exact "
        "proportionality, weight values, a base-4 positional code of the area sum) and judged against set-valued admissible outcomes Inside <= S <= Nearest; "
        "nested interval pairs decide monotonicity, zero/only pairs complementarity, dataset+model weight the precedence rule and its single warning. The interval "
        "classes enumerate the statement's cases; axes and bounds within a class are sampled.",
   note="Trusted base: vf/ref/intervals.py (30 lines), generic data making unaffected clps distinguishable. Multiplicity of overlapping listed intervals is not judged.",
   technique="runtime monitoring: observable affected sets read from results of real optimisations, judged by a set-valued oracle; recorders on the interval code"),
 "C09": dict(category="exploration",
   text="The real DataProviderLinked is constructed for every 2-dataset axis pair of a bounded grid with offsets x 6 tolerances x 3 methods (exhaustive; a "
        "rotating third of the tolerance/method combinations per pair in the quick tier) and for random 2-4 dataset sets in every order; its tables (aligned axis, "
        "assignments, stacked data identified by unique ids, aligned weights, AlignDatasetError) are compared with the set of admissible outcomes of a 60-line "
        "sequential model; a slice goes through optimize() and the C03 result oracle. The alignment is a small deterministic function of the axes, so bounded-"
        "exhaustive execution is the right level.",
   note="Trusted base: vf/ref/align.py. Equidistant candidates admit either neighbour. Only the tables are judged, not how xarray builds them.",
   technique="runtime monitoring: after-construction invariant check of the real alignment tables against an executable reference model; unique-id conservation"),
 "C11": dict(category="exploration",
   text="icontract postconditions on the transformation methods plus a recorder on Optimizer.objective_function that captures x, the penalty and the live "
        "real-space parameters at EVERY evaluation of real TRF / Dogbox / LM optimisations over decorated parameter sets (bounds, starts on bounds, fixed, "
        "non-negative, expression); bounds, positivity, fixed values, vector/label correspondence are judged per evaluation and per history row, and Jacobian "
        "columns against finite differences reconstructed from scipy's own recorded Jacobian evaluations. Transformation round trips on generated parameter sets. "
        "Sampling is the right level: parameter sets and optimisation paths are unbounded.",
   note="Trusted base: math.exp/log, the case description as the declared truth. 4-ulp latitude for log-transformed parameters on a bound; Jacobian columns below finite-difference noise are skipped. F19 (exp underflow to 0) attributed only for recorded x < -744.",
   technique="runtime monitoring: icontract postconditions + per-evaluation recorder on the live optimiser state during real optimisations"),
 "C15": dict(category="fault_enumeration",
   text="Exhaustive over k = 1..N (every group evaluation and every megacomplex matrix evaluation of the fault-free run, Jacobian points included) x 2 schemes x "
        "3 methods x verbose x raise_exception x stdout redirection x 4 exception classes, plus NaN/inf matrices, plus source-free sys.monitoring LINE failpoints at "
        "every executed line of 14 optimiser/provider functions at evaluations 1, 2 and a middle one (all lines thorough; a rotating quarter quick), plus every "
        "invalid-scheme kind; each outcome is judged against the statement's table with observers for stdout identity, scheme snapshot, warnings, the set of "
        "successfully evaluated parameter vectors and the C03 dataset identities. The fault space of a run is finite, so enumeration is the right level.",
   note="Trusted base: the probe's bookkeeping of completed evaluations. Faults striking while the Result is built are known finding F20 (attributed by phase + identity of the escaping exception).",
   technique="runtime monitoring with fault injection: function-boundary failpoints enumerated over all evaluations + sys.monitoring LINE failpoints; outcome-table oracle"),
 "C10": dict(category="exploration",
   text="Five monitors: objective walks on one Optimizer (repeats, returns, injected failures in between) compared bit-for-bit with fresh optimisers; double "
        "optimisation of every scheme; deep input snapshots around construction / optimisation / failed optimisation; differential schedule runs in child "
        "processes (numba threads 1-16 x workqueue/omp x chunk sizes x machine load) on workloads proven (by per-kernel call counters) to enter every parallel "
        "kernel; a write-set monitor that executes every parallel numba kernel's Python source with tracing prange/arrays. Compiler sanitizers and race "
        "detectors cannot instrument numba's JIT output (DESIGN.md section 1), so interleavings are reached by schedule diversity plus the structural "
        "write-set argument.",
   note="Trusted base: bit equality of float arrays; dispatcher.py_func is the source numba compiles. numba's automatic array-expression parallelisation is only covered by the schedule runs.",
   technique="runtime monitoring: differential execution (history, repetition, thread schedules) + write-set tracing of parallel kernels + input snapshots"),
 "C04": dict(category="exploration",
   text="Every matrix the real decay / decay-sequential / decay-parallel megacomplexes return for generated compartmental schemes (7 topologies, 2-5 compartments, "
        "all declaration orders up to 4 compartments, six decades of rates, all population patterns, exclude_from_normalize) is compared column-by-label with "
        "expm(K t) j (float64 expm, 30-digit mpmath expm as arbiter) with a tolerance given by the conditioning of the mathematical problem; plus conservation, "
        "sequential/parallel vs general equivalence and the rates / lifetimes / A-matrix / DAS / k_matrix of real optimisation results. Recorders show which "
        "solution path (closed form / eigen) was taken.",
   note="Trusted base: scipy expm, mpmath expm, the oracle's own K assembly (vf/ref/kinetics.py). K with complex / near-degenerate eigenvalues or cond(V)>1e8 is outside the property (skipped, counted).",
   technique="runtime monitoring: postcondition-style oracle (matrix exponential) on the real megacomplex evaluations over generated schemes; path recorders"),
 "C05": dict(category="exploration",
   text="Recording wrappers on the two Gaussian-IRF kernels (as bound in decay.util) and on Irf.parameter capture every kernel call of real megacomplex evaluations "
        "over generated IRFs (1-3 Gaussians, broadcasting, scales, normalise, per-index shifts, dispersion orders 0-3, both dispersion variables, both axis "
        "directions, rates x widths over seven decades, times from -100 to +1000 widths incl. the branch switch-over to the ulp); each kernel output point is "
        "judged against a 40-digit mpmath convolution reference with a tolerance given by the function's own conditioning, the per-index kernel arguments against "
        "the oracle's documented effective centres / widths, and each dispersed matrix slice against the index-independent model.",
   note="Trusted base: mpmath (erfc, exp) at 40 digits; scipy erfcx only as pre-filter (sampled against mpmath). Backsweep excluded.",
   technique="runtime monitoring: argument/return recorders on the numba kernels + pointwise multiprecision oracle"),
 "C07": dict(category="exploration",
   text="Matrices returned by the real damped-oscillation, pfid, coherent-artifact and spectral megacomplexes over generated models (1-3 oscillations, 0-2000 cm^-1, "
        "damping incl. large damping x width, (multi-)Gaussian IRFs with scales, per-index shifts and dispersion, artifact orders 1-3 with own/IRF width, all "
        "shape parameters incl. skewness at and across the switch, inverted/scaled axes) are judged by label against closed forms and a 40-digit convolution "
        "reference, with one real proportionality constant per model, the pre-pulse bound, the effective IRF position of the decay model per index, and the "
        "documented structural points of the shapes.",
   note="Trusted base: mpmath / scipy wofz-erfcx forms (vf/ref/irf.py), the C05 oracle of effective IRF parameters. F16 (textbook exp x (1+erf) formula) is attributed only when the entry reproduces that formula's own float64 value.",
   technique="runtime monitoring: oracle on real megacomplex evaluations (closed forms + multiprecision convolution), call recorders"),
 "C06": dict(category="exploration",
   text="For 22 model families (every builtin megacomplex type x no / Gaussian / shifted / dispersed IRF, alone and combined with shared labels) all non-semantic "
        "declaration orders are permuted (all permutations in the thorough tier, a seeded sample in quick); each twin is optimised on the same data and every "
        "result variable is compared BY LABEL with the unpermuted result (cost, penalties as multiset), and the dataset matrix is recomposed from "
        "single-megacomplex evaluations. Permutations of <= 4 labels / <= 3 megacomplexes are a finite space, so bounded-exhaustive metamorphic execution is the "
        "right level.",
   note="Trusted base: xarray label selection; what a label denotes absolutely is judged by C04/C05/C07. Component-numbered outputs are not labels; clp-derived outputs of rank-deficient matrices are skipped.",
   technique="runtime monitoring: metamorphic (permutation) oracle over results of real optimisations + composition oracle on MatrixProvider; recorders"),
 "C14": dict(category="exploration",
   text="Nine builtin model families with generating parameters drawn from the physical range are simulated (clp-driven with permuted clp labels, full-model) and "
        "fitted by the real optimize(): the recorded objective at the truth must vanish to 1e-10 |data|, clps come back by label, the optimiser started at the truth "
        "stays within 1e-6, perturbed starts (10-20 %) return within 200 evaluations judged by the recovery RATE over identifiable families and up to rate "
        "permutations, simulated data equal dataset matrix @ clp by label, noise seeds are reproducible. Convergence is restated as bounded progress; no liveness claim.",
   note="Trusted base: MatrixProvider.calculate_dataset_matrix (judged by C04-C07). A single local minimum is not a violation; fewer than a quarter of a family's starts recovering is.",
   technique="runtime monitoring: simulate-then-fit round-trip oracle with recorded objective evaluations; statistical recovery-rate monitor"),
 "C20": dict(category="exploration",
   text="For generated valid specifications over all builtin item types every reference position of a hand-written table (model-item references: scalar / list / "
        "dict; parameter references: scalar / list / dict; dataset group; megacomplexes of datasets) is mutated in turn - definition removed, label misspelled, "
        "parameter removed - plus duplicated unique and combined exclusive megacomplexes; validate()/valid()/get_issues() must return, name the label and report "
        "invalid; valid specs must validate, fill and evaluate without lookup errors and generate_parameters() must leave no issue. Per specification the mutation "
        "space is finite and enumerated (all positions thorough; all of the first spec + a third of the others quick).",
   note="Trusted base: the reference table REFS / PARAM_REFS in vf/props/c20.py. Numerical failures of the one evaluation are not lookup errors.",
   technique="runtime monitoring: single-mutation enumeration against the real validator with recorders on the issue/fill functions"),
 "C18": dict(category="fault_enumeration",
   text="The complete matrix save function x format (registered / inferred / unknown) x target state x allow_overwrite x (real plugin | plugin failing midway) is "
        "executed on real files under a Python audit hook and byte+mtime snapshots (thorough: the refusal cells again in a child under strace -f, which also sees "
        "netCDF's C-level writes); Project histories with prefix-sharing result names are replayed against a sequential model of run numbering, immutability of "
        "earlier runs and latest-lookups. The matrix is finite, so it is enumerated; histories are sampled.",
   note="Trusted base: sha256 / mtime snapshots, the audit hook's coverage of Python-level file operations, strace. mkdir of an existing directory is not a write.",
   technique="runtime monitoring: OS-level observation (audit hook, strace, snapshots) over an exhaustive save matrix; history + executable model for the project registry"),
 "C17": dict(category="exploration",
   text="Real save/load pairs over generated inputs: models of every builtin item type and harness scheme models (equal specification + bit-identical first "
        "objective evaluation of the reloaded model, recorded by the C02 monitor), results of real optimisations x SavingOptions x absolute/relative targets with "
        "the folder moved and the cwd changed before loading (parameters, histories, statistics, datasets, relative paths), netCDF datasets (bit equality incl. "
        "dtypes and coordinates), ASCII time-/wavelength-explicit files for either dimension order incl. square shapes. Sampling over feature combinations is "
        "the right level for an unbounded input space.",
   note="Trusted base: numpy array_equal, the C20 model generator, the C02 objective recorder. Fields not persisted by design are not compared. F21 (model class wider than its megacomplexes) attributed only to TypeError from load_model.",
   technique="runtime monitoring: round-trip oracles at the API boundary incl. behavioural identity (recorded objective) of reloaded models; recorders on the serialisation helpers"),
}

# additions made when independently seeded changes (seeded/INDEX.md) showed a hole in the explored space
for _k, _extra in {
    "C01": "Matrices without columns (every clp of an index constrained away) are exercised directly and in situ: empty clp, residual == data.",
    "C02": "The scheme generator also puts constraints on the source of a relation (both rules hold together) so that indices without any free clp occur.",
    "C03": "Data arrive in both dimension orders and in C and Fortran memory order.",
    "C04": "Populations that are not normalised at all (exclude_from_normalize = all) and datasets split into two decay megacomplexes that share one "
           "initial concentration (a megacomplex then sees a single population != 1) are compared block by block with expm(K_block t) j_block.",
    "C06": "Families of three megacomplexes that share clp labels and differ in index dependence (pfid always per index, baseline never) are combined in "
           "every order, scaled and unscaled; oscillation families mix both rate signs.",
    "C10": "Caller data come in both dimension orders and in C / Fortran memory order (a Fortran-contiguous input may not be aliased and scaled in place).",
    "C11": "covariance_matrix == pinv(J^T J) of the reported Jacobian in label order, and each free parameter's standard_error is the one of ITS column.",
    "C14": "One family links three datasets with different scales on partially overlapping axes.",
    "C15": "The harness scheme carries a fixed AND non-negative (log-transformed) parameter that must come back unchanged from the roll-back.",
    "C17": "Second generation: the LOADED result is saved to another folder, the first folder is deleted, and the re-loaded result is compared with the original; "
           "its spec files may not refer outside their folder.",
    "C18": "Project histories include optimisations whose save fails midway (injected OSError in save_model / save_scheme / write_dict): the partial run folder "
           "keeps its number and is never written again.",
}.items():
    CHECKS[_k]["text"] += " " + _extra

# rounds 3-5 of seeded changes
for _k, _extra in {
    "C01": "A failpoint makes the solver raise at a random call; what calculate_residual hands on carries the certificate; a group is re-evaluated after a fault; "
           "results of in-situ runs are judged with C03's result identity; hand-built reductions with two relations / a constraint on different intervals.",
    "C02": "All four data layouts; every second scheme is optimised twice as the same object; several weight items per dataset; up to two relations; expression twins.",
    "C03": "Hand-built mixed-membership groups per label pool (incl. dotted labels) and single-clp schemes; NaN / inf in a reported variable of a well-conditioned case is a violation.",
    "C04": "Filled dataset models are re-evaluated after in-place parameter changes; one rate in twelve is 1e-12..1e-8 per time unit.",
    "C05": "The returned matrix is judged directly when the kernel-call structure differs; filled models are re-evaluated after in-place IRF parameter changes.",
    "C07": "Reference and tolerance below the skewness switch follow the statement's continuity bound (theta formed in 40 digits).",
    "C08": "Constrained clp missing from the first dataset of a group; item intervals reassigned after construction and a first use.",
    "C09": "In-situ cases with index-dependent matrices.",
    "C10": "Hash-seed sweep (fresh processes) over a scheme with four dataset groups; walk kind with spectral_axis_scale; builtin walk exceptions are judged.",
    "C11": "All-label and ParameterHistory round trips incl. fixed non-negative parameters; yml specifications (free set and bounds as declared); released expressions.",
    "C12": "Non-negative expression parameters; in-situ schemes with an expression-only dataset judged by the reference objective.",
    "C13": "The |value| cap of log-space standard errors is admitted only where documented.",
    "C14": "Families with spectral_axis_scale, a single compartment in unlinked datasets, and a transposed weighted dataset reused across both fits.",
    "C15": "Message-less and multi-line injected exceptions; a scheme with three dataset groups.",
    "C16": "Expressions assigned after construction; in-memory specifications loaded twice; floor-division and other operator texts in yml expressions.",
    "C17": "Dotted dataset labels; a different result saved over the loaded folder and re-loaded (failures of the allowed overwrite are violations).",
    "C18": "Mapping form of import_data; extension-less file targets and dotted folder names in the refusal matrix.",
    "C19": "One short name carries an upper-case letter.",
    "C20": "Group-prefix / child-of-leaf parameter references; one model object validated repeatedly with changing parameter sets.",
}.items():
    CHECKS[_k]["text"] += " " + _extra
for _k, _extra in {
    "C01": "Linked datasets that list shared clp labels in opposite orders (targeted cases, no fault injection).",
    "C04": "A k-matrix shared by a combining and a plain megacomplex of one dataset group, both declaration orders.",
    "C06": "Family `split`: two decay megacomplexes over disjoint parts of one initial concentration (all orders).",
    "C08": "A neutral first weight item per dataset.",
    "C09": "Dataset labels whose concatenations collide (a, b, ab, ...), incl. the case where the colliding dataset lives alone on its part of the axis.",
    "C10": "Walks over a linked clp-guide scheme with a megacomplex scale and over a dataset with five scaled builtin megacomplex types.",
    "C12": "Copies are updated and the original compared.",
    "C13": "chi_square is compared with the reported penalties (1e-9) and, separately, the reported penalties with the reference (conditioning-aware).",
    "C14": "An expression-tied rate; the perturbed start is an independently built parameter set.",
    "C15": "Weighted datasets stored (global, model) and Fortran-ordered data in the fault-enumeration schemes.",
    "C16": "Leading-dot scientific notation for labelled values.",
    "C17": "Result folders named through '..', '.' and a sibling folder; stored references starting with '../' are violations.",
    "C18": "Composite result saves failing midway (raising data plugin, format without save, OSError in save_model / save_scheme / write_dict) next to bystander files.",
    "C19": "load_result with an explicit format on an existing folder.",
    "C20": "One item of every collection carries the same label in a third of the specifications.",
}.items():
    CHECKS[_k]["text"] += " " + _extra
for _k, _extra in {
    "C05": "Index-dependent cases are also fitted in situ: data simulated as matrix[i] @ clp_i per index (ascending, descending, unsorted axes) leave no residual.",
    "C08": "The two datasets of an unlinked group have different global axes in half of the probes.",
    "C11": "A later-built parameter set stays alive during the round trips of an earlier one.",
    "C14": "Non-negative rates; an at-truth fit interrupted at the third evaluation still reports the generating parameters.",
    "C16": "Infinite standard errors.",
    "C19": "One io plugin object is falsy.",
}.items():
    CHECKS[_k]["text"] += " " + _extra
for _k, _extra in {
    "C06": "Index-dependent full models (dispersed / shifted IRF under a global megacomplex).",
    "C09": "In-situ fits whose datasets have different clp sets, a new label standing before a shared one.",
    "C10": "The evaluations optimize() itself makes first are compared as well; walk over two decay megacomplexes sharing one initial concentration.",
    "C13": "All data layouts; the cost is re-evaluated on the caller's own data objects.",
    "C17": "Input data loaded from files; loaded datasets must name the file inside the folder they were loaded from.",
}.items():
    CHECKS[_k]["text"] += " " + _extra
for _k, _extra in {
    "C08": "A second relation on the same target; zero / only / relation probes are also judged by C03's result identities (what is reported is what the fit used).",
    "C14": "A three-species full model with rotated label order: coefficients must be the identity by label.",
    "C19": "Explicit formats with extension-less paths.",
}.items():
    CHECKS[_k]["text"] += " " + _extra
for _k, _extra in {
    "C02": "Hand-built single-clp schemes (one matrix column) in shard 0.",
    "C09": "Axes mapped to other units (spacing 5e-10; offset 2^21) by maps that are exact in binary floating point.",
    "C10": "The reference value for x comes from an optimiser whose first evaluation is x.",
    "C17": "Schemes that carry a dataset the model does not use.",
}.items():
    CHECKS[_k]["text"] += " " + _extra
