SOURCE_COMMITS = []
NOT_APPLICABLE = {}
CHECKS = {
 "C19": dict(category="exploration",
   text="Every history over the bounded alphabet (2 short names + dotted name, 4 plugin classes, 3 registries) up to length 3 (quick) / 4 (thorough) "
        "is executed on the real public API and compared, after every operation, with an abstract map written from the statement; random histories "
        "up to length 40 extend the reach. Bounded-exhaustive exploration is the right level: the registry is a small deterministic state machine "
        "whose behaviour is determined by short histories.",
   note="Trusts the 60-line reference model vf/ref/registry.py and Python dict semantics; mock plugin classes stand in for real plugins.",
   technique="runtime monitoring: recorded API histories checked against an executable reference model (bounded-exhaustive + random)"),
}
