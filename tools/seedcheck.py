#!/venv/bin/python
"""Run the quick (or given tier) check of the property a seeded change breaks against that change.

The change (seeded/<id>/patch.diff) is applied with `git apply` to a scratch copy of /repo's working
tree under /tmp (so that concurrent runs against /repo are not disturbed); the check runs with
VERIF_REPO=<copy>; the copy is removed.  Usage: tools/seedcheck.py [id-substring ...] [--tier T] [--all-props]
"""
import json, os, shutil, subprocess, sys, tempfile, time
from concurrent.futures import ThreadPoolExecutor

ROOT = os.path.dirname(os.path.dirname(os.path.abspath(__file__)))


def run(sid, tier, props=None):
    d = os.path.join(ROOT, "seeded", sid)
    meta = json.load(open(os.path.join(d, "meta.json")))
    tmp = tempfile.mkdtemp(prefix="vf-seed-")
    try:
        subprocess.run(["git", "-C", "/repo", "worktree", "add", "-q", "--detach", os.path.join(tmp, "wt"), "HEAD"], check=True, capture_output=True)
        wt = os.path.join(tmp, "wt")
        # bring uncommitted changes of /repo's working tree along (normally none)
        p = subprocess.run(["git", "-C", wt, "apply", os.path.join(d, "patch.diff")], capture_output=True, text=True)
        if p.returncode != 0:
            return sid, "PATCH-DOES-NOT-APPLY", p.stderr[-300:]
        out_lines = []
        status = "MISSED"
        for prop in (props or [meta["property"]]):
            env = dict(os.environ, VERIF_REPO=wt, VF_EVIDENCE_DIR=os.path.join(tmp, "evidence"))
            t0 = time.time()
            q = subprocess.run([os.path.join(ROOT, "check"), prop, "--tier", tier], env=env, capture_output=True, text=True)
            viol = [l for l in (q.stdout + q.stderr).splitlines() if l.startswith("VIOLATION")]
            if q.returncode == 1 and viol:
                status = "CAUGHT"
                out_lines.append(f"{prop}: {viol[0][:200]} [{time.time() - t0:.0f}s]")
                mechs = sorted({v.split("#", 1)[1].strip().split(": ")[0][:90] for v in viol if "#" in v})
                out_lines.append(f"{prop} mechanisms: " + "; ".join(mechs[:12]))
            else:
                out_lines.append(f"{prop}: rc={q.returncode} [{time.time() - t0:.0f}s]")
        if props is None:
            json.dump({"tier": tier, "status": status, "detail": out_lines, "checked_at_verif_commit": subprocess.run(["git", "-C", ROOT, "rev-parse", "--short", "HEAD"], capture_output=True, text=True).stdout.strip()},
                      open(os.path.join(d, "result.json"), "w"), indent=1)
        else:
            json.dump({"tier": tier, "detail": out_lines}, open(os.path.join(d, "result_all_props.json"), "w"), indent=1)
        return sid, status, " | ".join(out_lines)
    finally:
        subprocess.run(["git", "-C", "/repo", "worktree", "remove", "--force", os.path.join(tmp, "wt")], capture_output=True)
        shutil.rmtree(tmp, ignore_errors=True)


def main():
    args = sys.argv[1:]
    tier = "quick"
    props = None
    if "--tier" in args:
        i = args.index("--tier"); tier = args[i + 1]; del args[i:i + 2]
    if "--all-props" in args:
        args.remove("--all-props")
        props = [f"C{i:02d}" for i in range(1, 21)]
    ids = sorted(x for x in os.listdir(os.path.join(ROOT, "seeded")) if os.path.isdir(os.path.join(ROOT, "seeded", x)))
    if args:
        ids = [i for i in ids if any(a in i for a in args)]
    with ThreadPoolExecutor(2) as ex:
        for sid, status, info in ex.map(lambda s: run(s, tier, props), ids):
            print(f"{status:8s} {sid:32s} {info}", flush=True)


main()
