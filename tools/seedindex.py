#!/venv/bin/python
"""Write seeded/INDEX.md from seeded/*/meta.json and the result.json files tools/seedcheck.py leaves."""
import json, os
ROOT = os.path.dirname(os.path.dirname(os.path.abspath(__file__)))
S = os.path.join(ROOT, "seeded")
rows = []
for sid in sorted(os.listdir(S)):
    d = os.path.join(S, sid)
    if not os.path.isdir(d):
        continue
    m = json.load(open(os.path.join(d, "meta.json")))
    r = json.load(open(os.path.join(d, "result.json"))) if os.path.exists(os.path.join(d, "result.json")) else {}
    ra = json.load(open(os.path.join(d, "result_all_props.json"))) if os.path.exists(os.path.join(d, "result_all_props.json")) else {}
    others = [x.split(":")[0] for x in ra.get("detail", []) if "VIOLATION" in x and not x.startswith(m["property"])]
    det = (r.get("detail") or [""])[0]
    mech = det.split("#", 1)[1].strip()[:110] if "#" in det else det[:110]
    rows.append(f"| {sid} | {m['property']} | {m['needs_to_manifest']} | {r.get('status', 'not run')} ({r.get('tier', '-')}) | {mech.replace('|', '/')} | {', '.join(others) or '-'} |")
with open(os.path.join(S, "INDEX.md"), "w") as f:
    f.write("# Seeded changes\n\nEach directory holds a change written by a fresh sub-agent that saw only the property text and a scratch\n"
            "worktree of /repo (nothing from /verif), confirmed by tools/seedadopt.py (demo exits 0 clean / 1 patched, pinned suite\n"
            "unchanged with the patch) and run against the property's check by tools/seedcheck.py (patch applied to a scratch\n"
            "worktree, check run with VERIF_REPO pointing at it).  None of them is ever applied to /repo.\n\n"
            "| change | property | needs, to manifest | check | first mechanism reported | other checks that also fire |\n|---|---|---|---|---|---|\n")
    f.write("\n".join(rows) + "\n")
print(len(rows), "rows")
