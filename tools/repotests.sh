#!/bin/bash
# Run the repository's pinned test suite with the guard off; print the summary line.
cd /repo && env -u GLOTARAN_VERIF /venv/bin/python -m pytest -ra -q -p no:cacheprovider --timeout=900 --continue-on-collection-errors -n 12 "$@" 2>&1 | tail -15
